"""Mutant corpus for the self-test (E5). Each mutant is a single textual edit of /repo that still
compiles and breaks exactly one frozen rule instance; `expect` is a substring of the report line."""

CG = "crates/qbice/src/engine/computation_graph/"
ST = "crates/storage/src/"

import subprocess as _sp


def _slice(rev, path, start, end):
    t = _sp.check_output(["git", "-C", "/repo", "show", "%s:%s" % (rev, path)], text=True)
    a = t.index(start)
    return t[a:t.index(end, a)]


# D6: the recursive cycle probe of the pinned tree (before fix 68fc23f) vs the repaired one
_OLD_PROBE = _slice("e00951b", CG + "computing.rs", "    /// Checks whether the stack of computing queries contains a cycle\n    #[allow(clippy::needless_pass_by_value)]\n    fn check_cyclic_internal(",
                    "    /// Checks whether the stack of computing queries contains a cycle\n    #[allow(clippy::needless_pass_by_value)]\n    pub(super) fn check_cyclic(").replace(
    "computing: &QueryComputing,\n        target", "computing: &Arc<QueryComputing>,\n        target")
_NEW_PROBE = _slice("68fc23f", CG + "computing.rs", "    /// Checks whether `target` is reachable from `root`",
                    "    /// Checks whether the stack of computing queries contains a cycle\n    #[allow(clippy::needless_pass_by_value)]\n    pub(super) fn check_cyclic(")

MUTANTS = [
    # ------------------------------------------------------------------ C01
    dict(id="C01.a-skip-mark-on-contention", prop="C01", file=CG + "dirty_worker.rs",
         old="                    task.push_to_buffer(Edge::new(caller, *task.query_id()));\n",
         new="                    let _ = Edge::new(caller, *task.query_id());\n",
         expect="C01.a/process_task/mark-every-backward-edge"),
    dict(id="C01.b-drop-drain_all", prop="C01", file=CG + "dirty_worker.rs",
         old="        for remaining_edge in stripped_buffer.drain_all() {",
         new="        if Arc::strong_count(&stripped_buffer) > 1 { return write_tx; }\n        for remaining_edge in stripped_buffer.drain_all() {",
         expect="C01.b/dirty_propagate_from_batch/drain-after-barrier"),
    dict(id="C01.c-unordered-insert-arm-dropped", prop="C01", file=CG + "database.rs",
         old="""                        for edge in query_ids {
                            self.engine()
                                .computation_graph
                                .database
                                .backward_edges
                                .insert(*edge, *self.query_id(), &mut tx)
                                .await;
                        }""",
         new="""                        let _ = query_ids;""",
         expect="C01.c/Snapshot::set_computed/arm-symmetry"),
    dict(id="C01.d-no-clear_dependencies", prop="C01", file=CG + "repair.rs",
         old="        lock_guard.query_computing().clear_dependencies();\n",
         new="",
         expect="C01.d/repair_query/clear-before-execute"),
    dict(id="C01.e-submit-before-propagate", prop="C01", file=CG + "input_session.rs",
         old="""        transaction = engine
            .dirty_propagate_from_batch(dirty_batch.into_iter(), transaction)
            .await;

        engine.submit_write_buffer(transaction);""",
         new="""        engine.submit_write_buffer(transaction);
        let transaction = engine.new_write_transaction();
        let transaction = engine
            .dirty_propagate_from_batch(dirty_batch.into_iter(), transaction)
            .await;
        engine.submit_write_buffer(transaction);""",
         expect="C01.e/commit_internal/propagate-before-submit"),
    dict(id="C01.f-fast-path-lt", prop="C01", file=CG + "fast_path.rs",
         old="        if last_verified.0 != caller.timestamp() {",
         new="        if last_verified.0 < caller.timestamp() && last_verified.0 != caller.timestamp() && false {",
         expect="C01.f/fast_path/hit-requires-current-epoch"),
    dict(id="C01.f-cleaned-ignores-fingerprint", prop="C01", file=CG + "repair.rs",
         old="            if value_fingerprint_diff {\n                return CalleeCheckDecision::Recompute;\n            }",
         new="            if value_fingerprint_diff && pedantic_repair {\n                return CalleeCheckDecision::Recompute;\n            }",
         expect="C01.f/check_callee/cleaned-requires-equal-fingerprint"),
    # ------------------------------------------------------------------ C04
    dict(id="C04.a-epoch-before-lock", prop="C04", file=CG + "database/sync.rs",
         old="""        let guard = self
            .computation_graph
            .database
            .sync
            .phase_mutex
            .clone()
            .write_owned()
            .await;

        let mut write_buffer = self""",
         new="""        let prev0 = self
            .computation_graph
            .database
            .sync
            .timestamp
            .fetch_add(0, Ordering::SeqCst);
        let _ = prev0;
        let guard = self
            .computation_graph
            .database
            .sync
            .phase_mutex
            .clone()
            .write_owned()
            .await;

        let mut write_buffer = self""",
         expect="C04.a/epoch-write-under-exclusive-lock"),
    dict(id="C04.a-read-epoch-before-shared-lock", prop="C04", file=CG + "database/sync.rs",
         old="""        let guard = self
            .computation_graph
            .database
            .sync
            .phase_mutex
            .clone()
            .read_owned()
            .await;

        let timestamp = Timestamp(""",
         new="""        let early = self.computation_graph.database.sync.timestamp.load(Ordering::SeqCst);
        let guard = self
            .computation_graph
            .database
            .sync
            .phase_mutex
            .clone()
            .read_owned()
            .await;

        let timestamp = Timestamp(early + 0 *""",
         expect="C04.a/epoch-read-under-lock"),
    dict(id="C04.b-spawned-repair-without-guard", prop="C04", file=CG + "backward_projection.rs",
         old="                                active_computation_graph.clone(),\n",
         new="                                { let _ = &active_computation_graph; None },\n",
         expect="C04.b/caller-information-guard"),
    dict(id="C04.c-guard-dropped-before-commit", prop="C04", file=CG + "input_session.rs",
         old="""            let (transaction, guard) =
                self.transaction.write().await.take().unwrap();

            Self::commit_internal(engine, dirty_batch, transaction).await;

            drop(guard);""",
         new="""            let (transaction, guard) =
                self.transaction.write().await.take().unwrap();

            drop(guard);
            Self::commit_internal(engine, dirty_batch, transaction).await;""",
         expect="C04.c/guard-released-after-commit/commit"),
    dict(id="C04.d-second-batch-in-session", prop="C04", file=CG + "input_session.rs",
         old="""            if set_input_result == SetInputResult::Updated {
                dirty_batch.write().await.push_back(query_id);
            }

            let mut transaction = transaction.write().await;

            let Some((write_buffer, _guard)) = transaction.as_mut() else {
                panic!("InputSession transaction has already been committed");
            };

            snapshot
                .set_computed_input(
                    query,
                    query_hash,
                    new_value,
                    query_value_fingerprint,
                    write_buffer,
                    true,
                    ts,
                )
                .await;

            set_input_result
        }
        .guarded()
        .await
    }

    /// """,
         new="""            if set_input_result == SetInputResult::Updated {
                dirty_batch.write().await.push_back(query_id);
            }

            let _ = transaction;
            let mut own = snapshot.engine().new_write_transaction();

            let engine = snapshot.engine().clone();
            snapshot
                .set_computed_input(
                    query,
                    query_hash,
                    new_value,
                    query_value_fingerprint,
                    &mut own,
                    true,
                    ts,
                )
                .await;
            engine.submit_write_buffer(own);

            set_input_result
        }
        .guarded()
        .await
    }

    /// """,
         nth=0, expect="C04.d/session-writes-one-batch"),
    # ------------------------------------------------------------------ C05
    dict(id="C05.a-batch-before-upgrade", prop="C05", file=CG + "database.rs",
         old="""        self.upgrade_to_exclusive().await;

        async move {
            let _active_computation_guard = active_computation_guard;

            // the write batch must not exist across the cancellable await above
            let mut tx = engine.new_write_transaction();
""",
         new="""        let mut tx = engine.new_write_transaction();
        self.upgrade_to_exclusive().await;

        async move {
            let _active_computation_guard = active_computation_guard;

""",
         expect="C05.a/rule1/Snapshot::done_backward_projection"),
    dict(id="C05.a-clean_query-not-guarded", prop="C05", file=CG + "computing.rs",
         old="""            self.clean_query(clean_edges, new_tfc, timsestamp).await;

            lock_guard.done();
        }
        .guarded()
        .await;""",
         new="""            self.clean_query(clean_edges, new_tfc, timsestamp).await;

            lock_guard.done();
        }
        .await;""",
         expect="C05."),
    dict(id="C05.b-done-notify-before-remove", prop="C05", file=CG + "computing.rs",
         old="""            .expect(
                "the computing lock guard has dropped and tried to remove \\
                 existing computing lock, but no entry found",
            );

        entry.1.notify.notify_waiters();""",
         new="""            .expect(
                "the computing lock guard has dropped and tried to remove \\
                 existing computing lock, but no entry found",
            );

        if self.computing_mode == ComputingMode::Execute { entry.1.notify.notify_waiters(); }""",
         expect="C05.b/ComputingLockGuard/drop-releases"),
    dict(id="C05.c-publish-before-wait", prop="C05", file=CG + "slow_path.rs",
         old="        drop(tracked_engine);\n        wait_group.wait().await;\n",
         new="        drop(tracked_engine);\n        if false { wait_group.wait().await; }\n",
         expect="C05.c/execute_query/wait-then-publish"),
    dict(id="C05.e-guard-drop-forgets", prop="C05", file="crates/qbice/src/engine/guard.rs",
         old="        if let Some(future) = self.future.take() {\n            tokio::spawn(future);\n        }",
         new="        if let Some(future) = self.future.take() {\n            if std::thread::panicking() { tokio::spawn(future); }\n        }",
         expect="C05.e/Guard/drop-spawns"),
    # ------------------------------------------------------------------ C02
    dict(id="C02.b-listener-after-unlock", prop="C02", file=CG + "computing.rs",
         old="""                let notified_owned = entry.get().notified_owned();

                drop(entry);
                drop(self);""",
         new="""                let computing = entry.get().clone();

                drop(entry);
                drop(self);
                let notified_owned = computing.notified_owned();""",
         expect="C02.b/Snapshot::computing_lock_guard/listener-before-unlock"),
    dict(id="C02.c-D3-drain-under-shared-lock", prop="C02", file=CG + "database.rs",
         old="""        let mut write = self.0.write();

        let (large_set, result) = match &mut *write {
            TieredStorage::Small(vec_lock) => {
                let vec = vec_lock.get_mut();
""",
         new="""        let read = self.0.read();

        let (large_set, result) = match &*read {
            TieredStorage::Small(vec_lock) => {
                let mut vec = vec_lock.write();
""",
         edits_extra=[("""            TieredStorage::Large(set) => return set.insert(element),
        };

        *write = TieredStorage::Large(large_set);""", """            TieredStorage::Large(set) => return set.insert(element),
        };
        drop(read);

        *self.0.write() = TieredStorage::Large(large_set);""")],
         expect="C02.c/lock-gap/<CompressedBackwardEdgeSet as ConcurrentSet>::insert_element"),
    dict(id="C02.c-apply_op-writeback-snapshot", prop="C02", file="crates/storage/src/key_of_set_map/cache.rs",
         old="""                if new_set.len() > 1024 {
                    drop(read_entry);

                    let mut write_entry = entry.write();
                    *write_entry = Entry::TooLarge;
                }""",
         new="""                if new_set.len() > 1024 {
                    drop(read_entry);

                    let mut write_entry = entry.write();
                    *write_entry = Entry::TooLarge;
                } else if new_set.is_empty() {
                    let fresh = Entry::InMemory(new_set.clone());
                    drop(read_entry);

                    let mut write_entry = entry.write();
                    *write_entry = fresh;
                }""",
         expect="C02.c/lock-gap/CacheKeyOfSetMap::apply_op"),
    dict(id="C02.d-pin-threshold", prop="C02", file=CG + "query_lock_manager.rs",
         old="        Arc::strong_count(&value.0) > 1",
         new="        Arc::strong_count(&value.0) > 2",
         expect="C02.d/lock-pin-predicate"),
    dict(id="C02.e-clean-without-joining-all", prop="C02", file=CG + "repair.rs",
         old="""                                cleaned_edges.append(&mut edges);
""",
         new="""                                cleaned_edges.append(&mut edges);
                                if cleaned_edges.len() > 4096 {
                                    break;
                                }
""",
         expect="C02.e/recompute_decision/clean-after-all-joined"),
    dict(id="C02.a-guard-in-occupied-arm", prop="C02", file=CG + "computing.rs",
         old="""                // wait for the existing backward projection to finish
                notified.await;

                return None;""",
         new="""                // wait for the existing backward projection to finish
                notified.await;

                if std::hint::black_box(true) {
                    return None;
                }
                let this = engine.get_read_snapshot::<Q>(caller_information_query_id).await;
                return Some((this, BackwardProjectionLockGuard {
                    engine: engine.clone(),
                    query_id: caller_information_query_id_full,
                    defused: false,
                }));""",
         edits_extra=[("""        let pending_backward_projection =
            PendingBackwardProjection { notify: Arc::new(Notify::new()) };
""", """        let pending_backward_projection =
            PendingBackwardProjection { notify: Arc::new(Notify::new()) };
        let caller_information_query_id = self.query_id().compact_hash_128();
        let caller_information_query_id_full = *self.query_id();
""")],
         expect="C02.a/BackwardProjectionLockGuard/constructed-only-in-vacant-arm"),
    # ------------------------------------------------------------------ C03
    dict(id="C03.a-enqueue-unchanged-input", prop="C03", file=CG + "input_session.rs",
         old="            if set_input_result == SetInputResult::Updated {\n                dirty_batch.write().await.push_back(query_id);\n            }",
         new="            if set_input_result != SetInputResult::Fresh {\n                dirty_batch.write().await.push_back(query_id);\n            }",
         nth=0, expect="C03.a/InputSession::set_input/enqueue-only-if-updated"),
    dict(id="C03.a-refresh-always-enqueue", prop="C03", file=CG + "input_session.rs",
         old="                            if fingerprint_diff {\n",
         new="                            if fingerprint_diff || !results_is_small {\n",
         edits_extra=[("                        for refresh_result in results {\n", "                        let results_is_small = results.len() < 4;\n                        for refresh_result in results {\n")],
         expect="C03.a/InputSession::refresh/enqueue-only-if-changed"),
    dict(id="C03.b-propagate-through-firewall", prop="C03", file=CG + "dirty_worker.rs",
         old="                    ExecutionStyle::Projection | ExecutionStyle::Firewall\n",
         new="                    ExecutionStyle::Projection\n",
         expect="C03.b/process_task/stop-at-firewall-and-projection"),
    dict(id="C03.c-firewall-always-propagates", prop="C03", file=CG + "slow_path.rs",
         old="                if updated {\n                    write_buffer = self",
         new="                if updated || old_kind.is_firewall() {\n                    write_buffer = self",
         expect="C03.c/execute_query/propagate-only-if-fingerprint-changed"),
    dict(id="C03.d-no-double-check", prop="C03", file=CG + "computing.rs",
         old="""            if last_verified.0 == caller_information.timestamp() {
                // no need to repair
                return None;
            }
""",
         new="""            if last_verified.0 == caller_information.timestamp() && kind.is_input() {
                // no need to repair
                return None;
            }
""",
         expect="C03.d/computing_lock_guard/double-check"),
    dict(id="C03.d-repair-clean-edges", prop="C03", file=CG + "repair.rs",
         old="            return CalleeCheckDecision::NoNeed;\n",
         new="            if kind_hint { return CalleeCheckDecision::NoNeed; }\n",
         edits_extra=[("        let edge_is_dirty = engine.is_edge_dirty(*query_id, *callee).await;\n", "        let edge_is_dirty = engine.is_edge_dirty(*query_id, *callee).await;\n        let kind_hint = current_query_kind.is_firewall();\n")],
         expect="C03.d/check_callee/skip-clean-edges"),
    # ------------------------------------------------------------------ C06
    dict(id="C06.a-probe-only-before-first-repair", prop="C06", file=CG[:-1] + ".rs",
         old="            match self.exit_scc(&query.id, caller).await {",
         new="            match if status == QueryStatus::Repaired { Ok(true) } else { self.exit_scc(&query.id, caller).await } {",
         expect="C06.a/query_for/probe-every-iteration"),
    dict(id="C06.b-wait-before-probe", prop="C06", file=CG + "computing.rs",
         old="        let is_in_scc =\n            self.check_cyclic(&running_state, &query_caller.query_id());",
         new="        notified.await;\n        let is_in_scc =\n            self.check_cyclic(&running_state, &query_caller.query_id());",
         edits_extra=[("        notified.await;\n\n        Ok(false)", "        Ok(false)")],
         expect="C06.b/exit_scc/probe-before-wait"),
    dict(id="C06.b-error-without-mark", prop="C06", file=CG + "computing.rs",
         old="            computing.mark_scc();\n",
         new="            let _ = computing;\n",
         expect="C06.b/exit_scc/mark-then-error"),
    dict(id="C06.b-collector-stops-early", prop="C06", file=CG + "computing.rs",
         old="                callees.push(*k);\n                true\n",
         new="                callees.push(*k);\n                callees.len() < 64\n",
         expect="C06.b/check_cyclic_internal/visits-all-marks-found"),
    dict(id="C06.b-descend-under-bucket-lock", prop="C06", file=CG + "computing.rs",
         old="                callees.push(*k);\n                true\n",
         new="                if self.computation_graph.computing.try_get_query_computing(k).is_some() {\n                    callees.push(*k);\n                }\n                true\n",
         expect="C06.b/check_cyclic_internal/each-computation-once-no-lock-while-descending"),
    dict(id="C06.b-D6-recursive-probe-without-visited-set", prop="C06", file=CG + "computing.rs",
         old=_NEW_PROBE, new=_OLD_PROBE,
         expect="C06.b/check_cyclic_internal/each-computation-once-no-lock-while-descending"),
    dict(id="C06.c-resume-panic-inside-scc", prop="C06", file=CG + "slow_path.rs",
         old="        let value = if is_in_scc {",
         new="        let value = if is_in_scc && result.is_ok() {",
         expect="C06.c/execute_query/scc-decides-value"),
    dict(id="C06.b-final-check-skipped-for-repaired", prop="C06", file=CG[:-1] + ".rs",
         old="        Self::is_query_running_in_scc(caller)?;\n",
         new="        if value.status == QueryStatus::UpToDate { Self::is_query_running_in_scc(caller)?; }\n",
         expect="C06.b/is_query_running_in_scc/err-iff-flag"),
    # ------------------------------------------------------------------ C09
    dict(id="C09.a-always-updated", prop="C09", file=ST + "single_map/cache.rs",
         old="        self.cache.insert(key, value, updated);",
         new="        self.cache.insert(key, value, updated || true);",
         expect="C09.a/write-sites/record-then-cache-with-updated"),
    dict(id="C09.a-keyofset-remove-ignores-updated", prop="C09", file=ST + "key_of_set_map/cache.rs",
         old="            Operation::Remove(element.clone()),\n            write_batch.epoch(),\n            updated,",
         new="            Operation::Remove(element.clone()),\n            write_batch.epoch(),\n            { let _ = updated; false },",
         expect="C09.a/write-sites/record-then-cache-with-updated"),
    dict(id="C09.b-pin-regardless-of-updated", prop="C09", file=ST + "wide_column_cache.rs",
         old="                    if updated {\n                        *entry.get_mut().pin_count.get_mut() += 1;\n                    }",
         new="                    let _ = updated;\n                    *entry.get_mut().pin_count.get_mut() += 1;",
         expect="C09.b/WideColumnCache::insert/pin-under-updated"),
    dict(id="C09.b-remove-pinned-entry", prop="C09", file=ST + "wide_column_cache.rs",
         old="                    if *occupied_entry.get_mut().pin_count.get_mut() == 0 {",
         new="                    if *occupied_entry.get_mut().pin_count.get_mut() <= 1 {",
         expect="C09.b/WideColumnCache::remove/negative-entry-and-pin"),
    dict(id="C09.b-no-negative-entry", prop="C09", file=ST + "wide_column_cache.rs",
         old="                if updated {\n                    vaccant_entry.insert(Entry {\n                        value: None,",
         new="                if updated && false {\n                    vaccant_entry.insert(Entry {\n                        value: None,",
         expect="C09.b/WideColumnCache::remove/negative-entry-and-pin"),
    dict(id="C09.c-fill-overwrites-occupied", prop="C09", file=ST + "wide_column_cache.rs",
         old="""                            tiny_lfu::Entry::Occupied(_) => {
                                // Do nothing as there's an another thread
                                // inserted an explicit value
                            }""",
         new="""                            tiny_lfu::Entry::Occupied(mut occ) => {
                                if occ.get_mut().value.is_none() {
                                    let _ = occ.remove();
                                }
                            }""",
         expect="C09.c/WideColumnCache::get/fill-only-when-vacant"),
    dict(id="C09.d-notify-before-commit", prop="C09", file=ST + "write_manager/write_behind.rs",
         old="""        // commit physical batch
        to_commit_db_batch.commit();

        // after commit actions
        for mut logical_batch in to_commit_logical_batches {""",
         new="""        // after commit actions
        let mut to_commit_db_batch = Some(to_commit_db_batch);
        for mut logical_batch in to_commit_logical_batches {
            if let Some(b) = to_commit_db_batch.take() { if logical_batch.epoch.0 % 2 == 0 { b.commit(); } else { to_commit_db_batch = Some(b); } }""",
         edits_extra=[("""                logical_batch.active = false;
            }
        }
    }""", """                logical_batch.active = false;
            }
        }
        if let Some(b) = to_commit_db_batch.take() { b.commit(); }
    }""")],
         expect="C09.d/flush/commit-before-unpin-notification"),
    dict(id="C09.e-staged-op-wrong-epoch", prop="C09", file=ST + "key_of_set_map/cache.rs",
         old="            Operation::Insert(element),\n            write_batch.epoch(),",
         new="            Operation::Insert(element),\n            Epoch(0),",
         expect="C09.e/key-of-set/epochs"),
    # ------------------------------------------------------------------ C16
    dict(id="C16.a-evict-without-pin-check", prop="C16", file=ST + "tiny_lfu.rs",
         old="                        !self.lifecycle_listener.is_pinned(evicted_key, value)\n",
         new="                        !self.lifecycle_listener.is_pinned(evicted_key, value) || self.unpin_strategy == UnpinStrategy::Poll\n",
         expect="C16.a/remove_closure/removal-requires-unpinned"),
    dict(id="C16.a-extra-remover", prop="C16", file=ST + "tiny_lfu.rs",
         old="    pub fn unpin(&self, key: K) {\n",
         new="    pub fn unpin(&self, key: K) {\n        if self.inner.storage.len() > usize::MAX / 2 { let _ = self.inner.storage.remove_sync(&key); }\n",
         expect="C16.a/who-may-remove-from-storage"),
    dict(id="C16.b-pop-without-confirmation", prop="C16", file=ST + "tiny_lfu/policy.rs",
         old="""            if remove(candidate_key) {
                // the main storage has confirmed removal of the candidate,
                // we can evict it safely
                self.lru.pop_least_recent(lru::Region::Window);
            } else {""",
         new="""            if remove(candidate_key) || candidate_freq == 0 {
                // the main storage has confirmed removal of the candidate,
                // we can evict it safely
                self.lru.pop_least_recent(lru::Region::Window);
            } else {""",
         expect="C16.b/policy/forget-only-after-confirmation"),
    dict(id="C16.c-remove-without-message", prop="C16", file=ST + "tiny_lfu.rs",
         old="        self.write_buffer.push(WriteMessage::Removed(key));\n",
         new="        if std::mem::size_of::<V>() > 0 { self.write_buffer.push(WriteMessage::Removed(key)); }\n",
         expect="C16.c/storage-policy-message-pairing"),
    dict(id="C16.d-unpin-at-two", prop="C16", file=ST + "wide_column_cache.rs",
         old="                count == 1 // unpin",
         new="                count <= 2 // unpin",
         expect="C16.d/unpin-only-at-zero"),
    dict(id="C16.d-pin-predicate-threshold", prop="C16", file=ST + "wide_column_cache.rs",
         old="        value.pin_count.load(Ordering::SeqCst) > 0",
         new="        value.pin_count.load(Ordering::SeqCst) > 1",
         expect="C16.d/pin-predicates-read-owner-state"),
    # ------------------------------------------------------------------ C10
    dict(id="C10.a-apply-older-or-equal-epoch", prop="C10", file=ST + "write_manager/write_behind.rs",
         old="            if top.write_buffer.epoch == current_batch.expected_epoch {",
         new="            if top.write_buffer.epoch <= current_batch.expected_epoch || pending_commits.len() > 64 {",
         expect="C10.a/process_pending_commits/apply-only-expected-epoch"),
    dict(id="C10.a-heap-natural-order", prop="C10", file=ST + "write_manager/write_behind.rs",
         old="        other.write_buffer.epoch.cmp(&self.write_buffer.epoch)",
         new="        self.write_buffer.epoch.cmp(&other.write_buffer.epoch)",
         expect="C10.a/WriteTask-order/reversed-epoch"),
    dict(id="C10.b-inactive-before-commit", prop="C10", file=ST + "write_manager/write_behind.rs",
         old="""        // commit physical batch
        to_commit_db_batch.commit();

        // after commit actions
        for mut logical_batch in to_commit_logical_batches {
            if shutting_down.load(Ordering::SeqCst).not() {""",
         new="""        let mut to_commit_logical_batches = to_commit_logical_batches;
        if shutting_down.load(Ordering::SeqCst) {
            for b in &mut to_commit_logical_batches { b.active = false; }
        }
        // commit physical batch
        to_commit_db_batch.commit();

        // after commit actions
        for mut logical_batch in to_commit_logical_batches {
            if shutting_down.load(Ordering::SeqCst).not() {""",
         expect="C10.b/inactive-only-after-commit"),
    dict(id="C10.c-second-epoch-source", prop="C10", file=ST + "write_manager/write_behind.rs",
         old="            || WriteBatch::new(Epoch(curr_epoch), true),",
         new="            || WriteBatch::new(Epoch(self.epoch.load(Ordering::SeqCst)), true),",
         expect="C10.c/single-epoch-source"),
    dict(id="C10.e-commit-joined-before-serializers", prop="C10", file=ST + "write_manager/write_behind.rs",
         old="""        for handle in self.serialize_handles.drain(..) {
            let _ = handle.join();
        }
""",
         new="""        for handle in self.serialize_handles.drain(..) {
            if handle.is_finished() { let _ = handle.join(); } else { break; }
        }
""",
         expect="C10.e/shutdown/ordered-joins"),
    dict(id="C10.e-no-final-drain", prop="C10", file=ST + "write_manager/write_behind.rs",
         old="""        // Process remaining commits
        Self::process_pending_commits(
            &mut holdback_queues,
            &mut current_batch,
            &after_commit_sender,
            shutting_down,
            db,
        );
""",
         new="""        // Process remaining commits
        if !shutting_down.load(Ordering::SeqCst) {
        Self::process_pending_commits(
            &mut holdback_queues,
            &mut current_batch,
            &after_commit_sender,
            shutting_down,
            db,
        );
        }
""",
         expect="C10.e/commit_worker/final-drain-and-flush"),
    # ------------------------------------------------------------------ C07
    dict(id="C07.a-clean_query-early-return", prop="C07", file=CG + "database.rs",
         old="        for callee in clean_edges.iter().copied() {\n            let edge = Edge { from: *self.query_id(), to: callee };",
         new="        if clean_edges.is_empty() && new_node_info.is_none() && timestamp.0 == 0 {\n            return;\n        }\n        for callee in clean_edges.iter().copied() {\n            let edge = Edge { from: *self.query_id(), to: callee };",
         expect="C07.a/clean_query/one-batch-submitted-once"),
    dict(id="C07.c-sync-not-taken", prop="C07", file=CG + "database.rs",
         old="            let sync = ManuallyDrop::take(&mut self.sync);\n",
         new="            let sync = ManuallyDrop::take(&mut self.dirty_edge_set);\n            let _ = &self.sync;\n",
         edits_extra=[("            let dirty_edge_set = ManuallyDrop::take(&mut self.dirty_edge_set);\n", "            let dirty_edge_set = ();\n")],
         expect="C07.c/Database-drop/takes-and-waits-all-fields"),
    dict(id="C07.d-epoch-not-reloaded", prop="C07", file=CG + "database/sync.rs",
         old="            timestamp: AtomicU64::new(timestamp.0),",
         new="            timestamp: AtomicU64::new(timestamp.0 - timestamp.0),",
         expect="C07.d/Sync::new/epoch-reloaded"),
    dict(id="C07.d-store-previous-epoch", prop="C07", file=CG + "database/sync.rs",
         old="            .insert((), Timestamp(new_timestamp), &mut write_buffer)",
         new="            .insert((), Timestamp(prev), &mut write_buffer)",
         expect="C07.d/session/epoch-stored-with-session"),
    # ------------------------------------------------------------------ C08
    dict(id="C08.a-publish-in-fresh-batch", prop="C08", file=CG + "slow_path.rs",
         old="""                (
                    write_buffer,
                    Some(fingerprint),""",
         new="""                self.engine().submit_write_buffer(write_buffer);
                (
                    self.engine().new_write_transaction(),
                    Some(fingerprint),""",
         expect="C08.a/execute_query/value-shares-batch-with-dirty-marks"),
    dict(id="C08.d-fjall-commit-twice", prop="C08", file=ST + "kv_database/fjall.rs",
         old="        batch.commit().expect(\"write should not fail\");",
         new="        if self.bytes_written > BATCH_SIZE * 2 { self.db.db.batch().durability(None).commit().expect(\"x\"); }\n        batch.commit().expect(\"write should not fail\");",
         expect="C08.d/fjall/commit-is-one-store-write"),
    dict(id="C08.e-atomic-flush-off", prop="C08", file=ST + "kv_database/rocksdb.rs",
         old="    opts.set_atomic_flush(true);\n",
         new="    opts.set_atomic_flush(false);\n",
         expect="C08.e/rocksdb/wal-off-implies-atomic-flush"),
    # ------------------------------------------------------------------ C11
    dict(id="C11.a-fjall-get-uses-other-value-type", prop="C11", file=ST + "kv_database/fjall.rs",
         old="        let mut buffer = Vec::new();\n        self.0.encode_wide_column_key::<W, C>(key, &mut buffer);\n\n        match keyspace.get(&buffer) {",
         new="        let mut buffer = Vec::new();\n        self.0.encode_value(key, &mut buffer, true);\n\n        match keyspace.get(&buffer) {",
         expect="C11.a/fjall/wide-column-key-agreement"),
    dict(id="C11.a-fjall-delete_member-unprefixed", prop="C11", file=ST + "kv_database/fjall.rs",
         old="""        let mut buffer = Vec::new();

        self.db.encode_value_length_prefixed(key, &mut buffer);
        self.db.encode_value(value, &mut buffer, false);

        self.batch.remove(&keyspace, &buffer);""",
         new="""        let mut buffer = Vec::new();

        self.db.encode_value(key, &mut buffer, false);
        self.db.encode_value(value, &mut buffer, false);

        self.batch.remove(&keyspace, &buffer);""",
         expect="C11.a/fjall/member-key-agreement"),
    dict(id="C11.a-fjall-scan-offset", prop="C11", file=ST + "kv_database/fjall.rs",
         old="            &key_bytes[8 + length..],",
         new="            &key_bytes[length..],",
         expect="C11.a/fjall/scan-prefix-and-element-offset"),
    dict(id="C11.a-suffix-encoded-as-prefix", prop="C11", file=ST + "kv_database/fjall.rs",
         old="        if W::discriminant_encoding() == DiscriminantEncoding::Suffixed {\n            self.encode_value(&C::discriminant(), buffer, false);",
         new="        if W::discriminant_encoding() != DiscriminantEncoding::Prefixed && buffer.len() > 64 {\n            self.encode_value(&C::discriminant(), buffer, false);",
         expect="C11.a/fjall/wide-column-key-layout"),
    dict(id="C11.b-duplicate-discriminant", prop="C11", file=CG + "database.rs",
         old="implements_wide_column_value!(NodeInfo, QueryNodeDiscriminant::NodeInfo);",
         new="implements_wide_column_value!(NodeInfo, QueryNodeDiscriminant::QueryKind);",
         expect="C11.b/discriminants-pairwise-distinct"),
    dict(id="C11.c-length-prefix-off-by-8", prop="C11", file=ST + "kv_database/fjall.rs",
         old="        let value_len = (end_len - start_len - 8) as u64;\n\n        // write the length prefix\n        buffer[start_len..start_len + 8]\n            .copy_from_slice(&value_len.to_le_bytes());\n    }\n\n    fn encode_wide_column_key",
         new="        let value_len = (end_len - start_len) as u64;\n\n        // write the length prefix\n        buffer[start_len..start_len + 8]\n            .copy_from_slice(&value_len.to_le_bytes());\n    }\n\n    fn encode_wide_column_key",
         expect="C11.c/fjall/length-prefix-backpatch"),
    dict(id="C11.a-rocksdb-scan-no-upper-bound", prop="C11", file=ST + "kv_database/rocksdb.rs",
         old="                read_opts.set_iterate_upper_bound(prefix_upper_bound);",
         new="                if prefix_upper_bound.len() < 4 { read_opts.set_iterate_upper_bound(prefix_upper_bound); }",
         expect="C11.a/rocksdb/scan-prefix-and-element-offset"),
    # ------------------------------------------------------------------ C12
    dict(id="C12.a-D4-bitvec-raw-bytes", prop="C12", file="crates/serialize/src/decode.rs",
         old="        let number_of_elements = len.div_ceil(bits_of::<T>());\n        let mut raw = Vec::with_capacity(number_of_elements);\n        for _ in 0..number_of_elements {\n            raw.push(T::decode(decoder, plugin, session)?);\n        }",
         new="        let number_of_elements = len.div_ceil(bits_of::<T>());\n        let mut raw = Vec::with_capacity(number_of_elements);\n        let _ = (plugin, session);\n        let bytes = decoder.read_raw_bytes(number_of_elements * std::mem::size_of::<T>())?;\n        for _ in 0..number_of_elements {\n            raw.push(T::ZERO);\n        }\n        let _ = bytes;",
         expect="C12.a/main/shape/BitVec<T, O>"),
    dict(id="C12.a-option-tag-swapped", prop="C12", file="crates/serialize/src/decode.rs",
         old="        let is_some = decoder.read_bool()?;\n        if is_some {",
         new="        let is_some = decoder.read_bool()?;\n        if !is_some {",
         expect="C12.a/main/shape/Option<T>"),
    dict(id="C12.a-hashmap-value-before-key", prop="C12", file="crates/serialize/src/decode.rs",
         old="            let key = K::decode(decoder, plugin, session)?;\n            let value = V::decode(decoder, plugin, session)?;\n            map.insert(key, value);\n        }\n        Ok(map)\n    }\n}\n\nimpl<T, S> Decode for HashSet<T, S>",
         new="            let value = V::decode(decoder, plugin, session)?;\n            let key = K::decode(decoder, plugin, session)?;\n            map.insert(key, value);\n        }\n        Ok(map)\n    }\n}\n\nimpl<T, S> Decode for HashSet<T, S>",
         expect="C12.a/main/shape/HashMap<K, V, S>"),
    dict(id="C12.a-bound-tag", prop="C12", file="crates/serialize/src/decode.rs",
         old="            1 => Ok(Self::Included(T::decode(decoder, plugin, session)?)),\n            2 => Ok(Self::Excluded(T::decode(decoder, plugin, session)?)),",
         new="            1 => Ok(Self::Included(T::decode(decoder, plugin, session)?)),\n            3 => Ok(Self::Excluded(T::decode(decoder, plugin, session)?)),",
         expect="C12.a/main/shape/Bound<T>"),
    dict(id="C12.b-vecdeque-no-length", prop="C12", file="crates/serialize/src/encode.rs",
         old="impl<T: Encode> Encode for VecDeque<T> {\n    fn encode<E: Encoder + ?Sized>(\n        &self,\n        encoder: &mut E,\n        plugin: &Plugin,\n        session: &mut Session,\n    ) -> io::Result<()> {\n        encoder.emit_usize(self.len())?;",
         new="impl<T: Encode> Encode for VecDeque<T> {\n    fn encode<E: Encoder + ?Sized>(\n        &self,\n        encoder: &mut E,\n        plugin: &Plugin,\n        session: &mut Session,\n    ) -> io::Result<()> {",
         expect="C12."),
    dict(id="C12.c-i32-decoded-at-64", prop="C12", file="crates/serialize/src/postcard.rs",
         old="        Ok(zigzag_decode_i32(self.read_varint_u32()?))",
         new="        Ok(zigzag_decode_i64(self.read_varint_u64()?) as i32)",
         expect="C12.c/primitive/i32"),
    dict(id="C12.c-char-fixed-width", prop="C12", file="crates/serialize/src/postcard.rs",
         old="        let code = self.read_u32()?;\n        char::from_u32(code)",
         new="        let mut buf = [0u8; 4];\n        self.reader.read_exact(&mut buf)?;\n        let code = u32::from_le_bytes(buf);\n        char::from_u32(code)",
         expect="C12.c/primitive/char"),
    # ------------------------------------------------------------------ C13
    dict(id="C13.b-hashmap-iteration-order", prop="C13", file="crates/stable_hash/src/lib.rs",
         old="""        for (key, value) in self {
            combined = combined.wrapping_add(state.sub_hash(&mut |sub| {
                key.stable_hash(sub);
                value.stable_hash(sub);
            }));
        }""",
         new="""        for (key, value) in self {
            key.stable_hash(state);
            value.stable_hash(state);
            combined = combined.wrapping_add(H::Hash::default());
        }""",
         expect="C13.b/order-independent/HashMap"),
    dict(id="C13.b-dashset-xor-shift-combiner", prop="C13", file="crates/stable_hash/src/lib.rs",
         old="""        for value in self.iter() {
            combined = combined.wrapping_add(state.sub_hash(&mut |sub| {
                value.stable_hash(sub);
            }));
        }""",
         new="""        for value in self.iter() {
            let h = state.sub_hash(&mut |sub| {
                value.stable_hash(sub);
            });
            combined.stable_hash(state);
            combined = h;
        }""",
         expect="C13.b/order-independent/DashSet"),
    dict(id="C13.a-vec-no-length", prop="C13", file="crates/stable_hash/src/lib.rs",
         old="impl<T: StableHash> StableHash for Vec<T> {\n    fn stable_hash<H: StableHasher + ?Sized>(&self, state: &mut H) {\n        state.write_length_prefix(self.len());\n",
         new="impl<T: StableHash> StableHash for Vec<T> {\n    fn stable_hash<H: StableHasher + ?Sized>(&self, state: &mut H) {\n",
         expect="C13.a/length-before-repetition/Vec<T>"),
    dict(id="C13.a-result-no-discriminant", prop="C13", file="crates/stable_hash/src/lib.rs",
         old="impl<T: StableHash, E: StableHash> StableHash for Result<T, E> {\n    fn stable_hash<H: StableHasher + ?Sized>(&self, state: &mut H) {\n        let discriminant = std::mem::discriminant(self);\n        discriminant.stable_hash(state);\n",
         new="impl<T: StableHash, E: StableHash> StableHash for Result<T, E> {\n    fn stable_hash<H: StableHasher + ?Sized>(&self, state: &mut H) {\n",
         expect="C13.a/discriminant-before-alternation/Result<T, E>"),
    dict(id="C13.c-arc-hashed-by-address", prop="C13", file="crates/stable_hash/src/lib.rs",
         old="impl<T: StableHash + ?Sized> StableHash for std::sync::Arc<T> {\n    fn stable_hash<H: StableHasher + ?Sized>(&self, state: &mut H) {\n        (**self).stable_hash(state);",
         new="impl<T: StableHash + ?Sized> StableHash for std::sync::Arc<T> {\n    fn stable_hash<H: StableHasher + ?Sized>(&self, state: &mut H) {\n        (std::sync::Arc::as_ptr(self).cast::<()>() as usize).stable_hash(state);",
         expect="C13.c/no-nondeterministic-input"),
    dict(id="C13.d-nan-not-normalised", prop="C13", file="crates/stable_hash/src/lib.rs",
         old="        let normalized = if f.is_nan() { f64::NAN } else { f };",
         new="        let normalized = if f.is_nan() { f } else { f };",
         expect="C13.d/float-nan-normalised"),
    dict(id="C13.d-u32-native-endian", prop="C13", file="crates/stable_hash/src/lib.rs",
         old="    fn write_u32(&mut self, i: u32) { self.write(&i.to_le_bytes()); }",
         new="    fn write_u32(&mut self, i: u32) { self.write(&i.to_ne_bytes()); }",
         expect="C13.d/integers-little-endian"),
    dict(id="C13.d-sub-hash-fresh-hasher", prop="C13", file="crates/stable_hash/src/lib.rs",
         old="        let mut sub_hasher = *self;\n",
         new="        let mut sub_hasher = Self::new_with_keys(self.finish128().h1, std::process::id().into());\n",
         expect="C13."),
    # ------------------------------------------------------------------ C14
    dict(id="C14.a-result-ignores-error-type", prop="C14", file="crates/stable_type_id/src/lib.rs",
         old="        base.combine(T::STABLE_TYPE_ID).combine(E::STABLE_TYPE_ID)\n    };\n}\n\n// RefCell<T>",
         new="        base.combine(T::STABLE_TYPE_ID)\n    };\n}\n\n// RefCell<T>",
         expect="C14.a/parameter-coverage/Result<T, E>/E"),
    dict(id="C14.a-array-ignores-length", prop="C14", file="crates/stable_type_id/src/lib.rs",
         old="        base.combine(T::STABLE_TYPE_ID).combine(size_id)",
         new="        let _ = size_id;\n        base.combine(T::STABLE_TYPE_ID)",
         expect="C14.a/parameter-coverage/[T; N]/N"),
    dict(id="C14.a-derive-drops-params", prop="C14", file="crates/identifiable_derive_lib/src/lib.rs",
         old="                #(\n                    hash = <#type_params as #identifiable_trait>::STABLE_TYPE_ID\n                        .combine(hash);\n                )*",
         new="                #(\n                    let _ = <#type_params as #identifiable_trait>::STABLE_TYPE_ID;\n                )*",
         expect="C14.a/parameter-coverage/"),
    dict(id="C14.b-duplicate-base-name", prop="C14", file="crates/stable_type_id/src/lib.rs",
         old='        let base = StableTypeID::from_unique_type_name("alloc::rc::Rc");',
         new='        let base = StableTypeID::from_unique_type_name("std::sync::Arc");',
         expect="C14.b/base-names-pairwise-distinct"),
    dict(id="C14.d-high-low-swapped", prop="C14", file="crates/qbice/src/query.rs",
         old="                self.stable_type_id.high(),\n                self.stable_type_id.low(),",
         new="                self.stable_type_id.low(),\n                self.stable_type_id.high(),",
         expect="C14.d/QueryID/packing"),
    dict(id="C14.d-compact128-from-swapped", prop="C14", file="crates/stable_hash/src/lib.rs",
         old="    fn from(value: u128) -> Self { Self(value as u64, (value >> 64) as u64) }",
         new="    fn from(value: u128) -> Self { Self((value >> 64) as u64, value as u64) }",
         expect="C14.d/word-conventions"),
    # ------------------------------------------------------------------ C15
    dict(id="C15.a-occupied-arm-overwrites-live", prop="C15", file=ST + "intern.rs",
         old="""                std::collections::hash_map::Entry::Occupied(mut entry) => {
                    if let Some(arc) = entry.get().upgrade() {
                        return Interned(arc);
                    }

                    // The weak reference is dead, we can replace it
                    let arc = Arc::new(value);""",
         new="""                std::collections::hash_map::Entry::Occupied(mut entry) => {
                    if entry.get().strong_count() > 1 {
                        if let Some(arc) = entry.get().upgrade() {
                            return Interned(arc);
                        }
                    }

                    // The weak reference is dead, we can replace it
                    let arc = Arc::new(value);""",
         expect="C15.a/Interner::intern/double-checked-insertion"),
    dict(id="C15.a-allocate-under-read-lock", prop="C15", file=ST + "intern.rs",
         old="""        // Not found, so insert a new one
        {
            let mut write_shard = typed_shard.write_shard(shard_index);

            match write_shard.entry(hash_128) {
                // double check in case another thread inserted it
                std::collections::hash_map::Entry::Occupied(mut entry) => {
                    if let Some(arc) = entry.get().upgrade() {
                        return Interned(arc);
                    }

                    // The weak reference is dead, we can replace it
                    let arc = Arc::from(value);""",
         new="""        // Not found, so insert a new one
        {
            let shard_index = typed_shard.shard_index(hash_128.high());
            let mut write_shard = typed_shard.write_shard(shard_index);

            match write_shard.entry(hash_128) {
                // double check in case another thread inserted it
                std::collections::hash_map::Entry::Occupied(mut entry) => {
                    if let Some(arc) = entry.get().upgrade() {
                        return Interned(arc);
                    }

                    // The weak reference is dead, we can replace it
                    let arc = Arc::from(value);""",
         expect="C15.a/Interner::intern_unsized/double-checked-insertion"),
    dict(id="C15.b-vacuum-drops-live", prop="C15", file=ST + "intern.rs",
         old="        write_shard.retain(|_, weak_value| weak_value.upgrade().is_some());",
         new="        write_shard.retain(|_, weak_value| weak_value.strong_count() > 1);",
         expect="C15.b/vacuum/keeps-exactly-live-weaks"),
    dict(id="C15.c-seen-set-without-type-id", prop="C15", file=ST + "intern.rs",
         old="            stable_type_id: T::STABLE_TYPE_ID,\n            hash_128: compact_128,",
         new="            stable_type_id: <() as Identifiable>::STABLE_TYPE_ID,\n            hash_128: compact_128,",
         expect="C15.c/encode/first-occurrence-decision"),
    dict(id="C15.c-reference-on-first", prop="C15", file=ST + "intern.rs",
         old="        if first {\n            // serialize the full value",
         new="        if !first {\n            // serialize the full value",
         expect="C15.c/encode/first-occurrence-decision"),
    dict(id="C12.d-derive-enum-decodes-skipped-field", prop="C12", file="crates/serialize_derive/src/lib.rs",
         old="""                    let field_decodes = fields.named.iter().map(|field| {
                        let field_name = &field.ident;
                        let field_type = &field.ty;

                        if should_skip(field) {""",
         new="""                    let field_decodes = fields.named.iter().map(|field| {
                        let field_name = &field.ident;
                        let field_type = &field.ty;

                        if false && should_skip(field) {""",
         expect="C12.a/derive-fixtures/shape/EnumWithSkip"),
    dict(id="C12.e-range-start-end-swapped", prop="C12", file="crates/serialize/src/decode.rs",
         old="        let end = T::decode(decoder, plugin, session)?;\n        Ok(start..end)",
         new="        let end = T::decode(decoder, plugin, session)?;\n        Ok(end..start)",
         expect="C12.e/main/field-order/Range<T>"),
    dict(id="C12.e-derive-named-struct-decodes-in-reverse", prop="C12", file="crates/serialize_derive/src/lib.rs",
         old="            let field_decodes = fields.named.iter().map(|field| {", nth=0,
         new="            let field_decodes = fields.named.iter().rev().map(|field| {",
         expect="C12.e/derive-fixtures/field-order/"),
    dict(id="C03.g-fast-path-orders-epochs", prop="C03", file=CG + "fast_path.rs",
         old="        if last_verified.0 != caller.timestamp() {",
         new="        if last_verified.0 < caller.timestamp() {",
         expect="C03.g/"),
    dict(id="C07.a-last-verified-written-conditionally", prop="C07", file=CG + "database.rs",
         old="""            self.engine()
                .computation_graph
                .database
                .last_verified
                .insert(
                    *self.query_id(),
                    LastVerified(current_timestamp),
                    &mut tx,
                )
                .await;

            for edge in forward_edge_order.0.iter() {""",
         new="""            if clean_existing_forward_edges {
            self.engine()
                .computation_graph
                .database
                .last_verified
                .insert(
                    *self.query_id(),
                    LastVerified(current_timestamp),
                    &mut tx,
                )
                .await;
            }

            for edge in forward_edge_order.0.iter() {""",
         expect="C07.a/"),
    dict(id="C14.b-derive-drops-module-path", prop="C14", file="crates/identifiable_derive_lib/src/lib.rs",
         old="""                    module_path!(),
                    "::",
                    stringify!(#name)
                );""",
         new="""                    stringify!(#name)
                );""",
         expect="C14.b/derived-names-carry-the-full-path"),
    dict(id="C11.e-upper-bound-not-truncated", prop="C11", file=ST + "kv_database/rocksdb.rs",
         old="                upper_bound.truncate(i + 1);\n", new="",
         expect="C11.e/rocksdb/scan-upper-bound-is-the-prefix-successor"),
    dict(id="C10.a-gives-up-after-first-physical-commit", prop="C10", file=ST + "write_manager/write_behind.rs",
         old="                    current_batch.flush(db, after_commit_sender, shutting_down);\n                }\n            } else {",
         new="                    current_batch.flush(db, after_commit_sender, shutting_down);\n                    break;\n                }\n            } else {",
         expect="C10.a/process_pending_commits/drains-until-nothing-is-ready"),
    # the apply step extracted into a helper (the neutral twin N23) and then broken: the rule follows the helper
    dict(id="C10.a-helper-lists-before-consuming", prop="C10", file=ST + "write_manager/write_behind.rs",
         old='                let task = pending_commits.pop().unwrap();\n\n                current_batch\n                    .db_write_batch\n                    .consume_serialization_buffer(task.serialize_buffer);\n\n                // push into current batch\n                current_batch.processed_logical_batch.push(task.write_buffer);\n\n                current_batch.expected_epoch.0 += 1;\n', new="                let task = pending_commits.pop().unwrap();\n\n                Self::apply_task(current_batch, task);\n",
         edits_extra=[("    fn process_pending_commits(", '    fn apply_task(current_batch: &mut CurrentBatch<Db>, task: WriteTask<Db>) {\n        let WriteTask { serialize_buffer, write_buffer } = task;\n        current_batch.processed_logical_batch.push(write_buffer);\n        current_batch\n            .db_write_batch\n            .consume_serialization_buffer(serialize_buffer);\n        current_batch.expected_epoch.0 += 1;\n    }\n\n    fn process_pending_commits(')],
         expect="C10.a/process_pending_commits/consumed-before-listed-for-notification"),
    dict(id="C10.a-helper-advances-only-for-nonempty-batches", prop="C10", file=ST + "write_manager/write_behind.rs",
         old='                let task = pending_commits.pop().unwrap();\n\n                current_batch\n                    .db_write_batch\n                    .consume_serialization_buffer(task.serialize_buffer);\n\n                // push into current batch\n                current_batch.processed_logical_batch.push(task.write_buffer);\n\n                current_batch.expected_epoch.0 += 1;\n', new="                let task = pending_commits.pop().unwrap();\n\n                Self::apply_task(current_batch, task);\n",
         edits_extra=[("    fn process_pending_commits(", '    fn apply_task(current_batch: &mut CurrentBatch<Db>, task: WriteTask<Db>) {\n        current_batch\n            .db_write_batch\n            .consume_serialization_buffer(task.serialize_buffer);\n        if !task.write_buffer.active {\n            return;\n        }\n        current_batch.processed_logical_batch.push(task.write_buffer);\n        current_batch.expected_epoch.0 += 1;\n    }\n\n    fn process_pending_commits(')],
         expect="C10.a/process_pending_commits/apply-only-expected-epoch"),
    dict(id="C12.n-vecdeque-loop-bound-clamped-with-the-capacity", prop="C12", file="crates/serialize/src/decode.rs",
         old="""        let len = decoder.read_usize()?;
        let mut deque = Self::with_capacity(len);""",
         new="""        let len = decoder.read_usize()?.min(1 << 20);
        let mut deque = Self::with_capacity(len);""",
         expect="C12.n/containers/repetition-count-is-the-decoded-length"),
    dict(id="C12.n-hashset-loop-stops-one-short-of-max", prop="C12", file="crates/serialize/src/decode.rs",
         old="""        let len = decoder.read_usize()?;
        let mut set = Self::with_capacity_and_hasher(len, S::default());""",
         new="""        let len = decoder.read_usize()?.saturating_sub(usize::from(std::mem::size_of::<T>() == 0));
        let mut set = Self::with_capacity_and_hasher(len, S::default());""",
         expect="C12.n/containers/repetition-count-is-the-decoded-length"),
    dict(id="C04.j-store-previous-epoch", prop="C04", file=CG + "database/sync.rs",
         old="            .insert((), Timestamp(new_timestamp), &mut write_buffer)",
         new="            .insert((), Timestamp(prev), &mut write_buffer)",
         expect="C04.j/session/epoch-stored-with-session"),
    # ------------------------------------------------------------------ round 6 (fourth session)
    dict(id="C02.i-abort-callee-guard-conjoined", prop="C02", file=CG + "computing.rs",
         old="        if request.in_flight > 0 || request.kept {", new="        if request.in_flight > 0 && request.kept {",
         expect="C02.i/abort_callee/undone-only-when-no-request-runs-and-none-completed"),
    dict(id="C02.i-abort-callee-ignores-completed-twin", prop="C02", file=CG + "computing.rs",
         old="        if request.in_flight > 0 || request.kept {", new="        if request.in_flight > 0 {",
         expect="C02.i/abort_callee/undone-only-when-no-request-runs-and-none-completed"),
    dict(id="C02.i-keep-callee-does-not-raise-kept", prop="C02", file=CG + "computing.rs",
         old="            request.kept = true;\n", new="",
         expect="C02.i/abort_callee/undone-only-when-no-request-runs-and-none-completed"),
    dict(id="C10.h-flush-replaces-the-whole-current-batch", prop="C10", file=ST + "write_manager/write_behind.rs",
         old='        let to_commit_db_batch =\n            std::mem::replace(&mut self.db_write_batch, db.write_batch());\n        let to_commit_logical_batches =\n            std::mem::take(&mut self.processed_logical_batch);\n',
         new="""        let fresh = CurrentBatch { processed_logical_batch: Vec::new(), db_write_batch: db.write_batch(), expected_epoch: Epoch(0) };
        let CurrentBatch { processed_logical_batch: to_commit_logical_batches, db_write_batch: to_commit_db_batch, .. } = std::mem::replace(self, fresh);
""",
         expect="C10.h/expected_epoch/only-advanced-by-one-after-applying"),
    dict(id="C07.i-flush-replaces-the-whole-current-batch", prop="C07", file=ST + "write_manager/write_behind.rs",
         old='        let to_commit_db_batch =\n            std::mem::replace(&mut self.db_write_batch, db.write_batch());\n        let to_commit_logical_batches =\n            std::mem::take(&mut self.processed_logical_batch);\n',
         new="""        let fresh = CurrentBatch { processed_logical_batch: Vec::new(), db_write_batch: db.write_batch(), expected_epoch: Epoch(0) };
        let CurrentBatch { processed_logical_batch: to_commit_logical_batches, db_write_batch: to_commit_db_batch, .. } = std::mem::replace(self, fresh);
""",
         expect="C07.i/expected_epoch/only-advanced-by-one-after-applying"),
    dict(id="C11.j-rocksdb-put-writes-through", prop="C11", file=ST + "kv_database/rocksdb.rs",
         old="        // accumulate estimated size\n        self.estimated_size += key_buffer.len() + value_buffer.len();\n",
         new="        // accumulate estimated size\n        self.estimated_size += key_buffer.len() + value_buffer.len();\n        if self.estimated_size > (64 << 20) {\n            self.db.db.write(&self.batch).expect(\"write should not fail\");\n            self.batch.clear();\n        }\n",
         expect="C11.j/rocksdb/store-is-written-only-by-commit"),
    dict(id="C16.j-lock-pinned-only-while-held", prop="C16", file=CG + "query_lock_manager.rs",
         old="        Arc::strong_count(&value.0) > 1", new="        value.0.try_write().is_err()",
         expect="C16.j/lock-pin-predicate"),
    dict(id="C03.l-clean-query-rebuilds-node-info-with-swapped-fingerprints", prop="C03", file=CG + "database.rs",
         old="""            let mut current_node_info = self.node_info().await.unwrap();

            current_node_info.transitive_firewall_callees = x;
            current_node_info.transitive_firewall_callees_fingerprint = self
                .engine()
                .hash(&current_node_info.transitive_firewall_callees);

            Some((current_node_info, new_observations))""",
         new="""            let current_node_info = self.node_info().await.unwrap();
            let tfc_fingerprint = self.engine().hash(&x);

            Some((NodeInfo::new(tfc_fingerprint, current_node_info.value_fingerprint(), x), new_observations))""",
         expect="C03.l/clean_query/tfc-fingerprint-of-new-tfc"),
    dict(id="C08.a-dirty-marks-in-a-batch-of-their-own", prop="C08", file=CG + "slow_path.rs",
         old="""                    write_buffer = self
                        .engine()
                        .dirty_propagate_from_batch(
                            std::iter::once(*self.query_id()),
                            write_buffer,
                        )
                        .await;
""",
         new="""                    let dirty_buffer = self
                        .engine()
                        .dirty_propagate_from_batch(
                            std::iter::once(*self.query_id()),
                            self.engine().new_write_transaction(),
                        )
                        .await;
                    self.engine().submit_write_buffer(dirty_buffer);
""",
         edits_extra=[("                let mut write_buffer = self.engine().new_write_transaction();\n\n                // if fingerprint has changed", "                let write_buffer = self.engine().new_write_transaction();\n\n                // if fingerprint has changed")],
         expect="C08.a/execute_query/value-shares-batch-with-dirty-marks"),
    dict(id="C14.f-name-hash-skips-last-byte-of-each-block", prop="C14", file="crates/stable_type_id/src/lib.rs",
         old="            | ((bytes[start + 7] as u64) << 56)", new="",
         expect="C14.f/witness/every-name-byte-and-the-length-reach-the-id"),
    dict(id="C14.f-combine-symmetric", prop="C14", file="crates/stable_type_id/src/lib.rs",
         old="        let mut v0 = self.0 ^ 0x736f_6d65_7073_6575;",
         new="        let (a, b) = if self.as_u128() <= other.as_u128() { (self, other) } else { (other, self) };\n        let mut v0 = a.0 ^ 0x736f_6d65_7073_6575;",
         edits_extra=[("        let mut v1 = self.1 ^ 0x646f_7261_6e64_6f6d;", "        let mut v1 = a.1 ^ 0x646f_7261_6e64_6f6d;"),
                      ("        let mut v2 = other.0 ^ 0x6c79_6765_6e65_7261;", "        let mut v2 = b.0 ^ 0x6c79_6765_6e65_7261;"),
                      ("        let mut v3 = other.1 ^ 0x7465_6462_7974_6573;", "        let mut v3 = b.1 ^ 0x7465_6462_7974_6573;")],
         expect="C14.f/witness/"),
    dict(id="C13.c-vecdeque-hashes-its-back-half-as-a-slice", prop="C13", file="crates/stable_hash/src/lib.rs",
         old="""impl<T: StableHash> StableHash for std::collections::VecDeque<T> {
    fn stable_hash<H: StableHasher + ?Sized>(&self, state: &mut H) {
        state.write_length_prefix(self.len());
        for item in self {
            item.stable_hash(state);
        }""",
         new="""impl<T: StableHash> StableHash for std::collections::VecDeque<T> {
    fn stable_hash<H: StableHasher + ?Sized>(&self, state: &mut H) {
        state.write_length_prefix(self.len());
        let (front, back) = self.as_slices();
        for item in front {
            item.stable_hash(state);
        }
        if !back.is_empty() {
            back.stable_hash(state);
        }""",
         expect="C13.c/layout-observers-only-iterated"),
    dict(id="C01.c-backward-edge-inserted-with-roles-swapped", prop="C01", file=CG + "database.rs",
         old="                            .insert(*query_id, *self.query_id(), &mut tx)",
         new="                            .insert(*self.query_id(), *query_id, &mut tx)",
         expect="C01.c/edge-roles/backward-edge-key-is-the-callee"),
    dict(id="C01.c-dirty-edge-removed-with-roles-swapped", prop="C01", file=CG + "database.rs",
         old="                                    Edge { from: *self.query_id(), to: *edge };",
         new="                                    Edge { from: *edge, to: *self.query_id() };",
         expect="C01.c/edge-roles/backward-edge-key-is-the-callee"),
    dict(id="C01.i-unordered-arm-overwrites-the-repair-flag", prop="C01", file=CG + "repair.rs",
         old="""                                cleaned_edges.append(&mut edges);

                                if repair_tfc_needed {
                                    repair_transitive_firewall_callees = true;
                                }""",
         new="""                                cleaned_edges.append(&mut edges);

                                repair_transitive_firewall_callees =
                                    repair_tfc_needed;""",
         expect="C01.i/repair-decision/accumulators-are-monotone"),
    dict(id="C01.i-clean-list-replaced", prop="C01", file=CG + "repair.rs",
         old="                                cleaned_edges.append(&mut edges);", new="                                cleaned_edges = edges;",
         edits_extra=[("                                cleaned_edges: mut edges,", "                                cleaned_edges: edges,")],
         expect="C01.i/repair-decision/accumulators-are-monotone"),
    dict(id="C01.j-clean-node-does-not-inherit-callee-firewall-sets", prop="C01", file=CG + "repair.rs",
         old="""                    new_tfcs.extend(
                        callee_info
                            .transitive_firewall_callees()
                            .iter()
                            .copied(),
                    );""", new="""                    let _ = callee_info;""",
         expect="C01.j/tfc-composition/when-verified-clean"),
    dict(id="C01.j-firewall-callee-not-added-itself", prop="C01", file=CG + "computing.rs",
         old="""            QueryKind::Executable(ExecutionStyle::Firewall) => {
                let _ = self.tfc.insert_sync(callee_id);
            }""", new="""            QueryKind::Executable(ExecutionStyle::Firewall) => {
                for q in
                    callee_info.transitive_firewall_callees().iter().copied()
                {
                    let _ = self.tfc.insert_sync(q);
                }
            }""",
         expect="C01.j/tfc-composition/while-executing"),
    dict(id="C01.k-check-callee-never-pedantic", prop="C01", file=CG + "repair.rs",
         old="""                                query_computing.clone(),
                                pedantic_repair,
                            ),""", new="""                                query_computing.clone(),
                                false,
                            ),""",
         expect="C01.k/pedantic-repair/inherited-not-constant"),
    dict(id="C01.k-backward-projection-recompute-not-pedantic", prop="C01", file=CG + "caller.rs",
         old="            CallerKind::Query(q) => q.pedantic_repair(),\n            CallerKind::BackwardProjectionPropagation => true,\n",
         new="            CallerKind::Query(q) => q.pedantic_repair(),\n            CallerKind::BackwardProjectionPropagation => false,\n",
         expect="C01.k/pedantic-repair/inherited-not-constant"),
    dict(id="C03.f-D19-reintroduced-marker-only-at-its-own-epoch", prop="C03", file=CG + "fast_path.rs",
         old="        ) && self.pending_backward_projection().await.is_some()\n", new="        ) && self.pending_backward_projection().await.is_some_and(|x| x.0 == caller.timestamp())\n",
         expect="C03.f/pending-backward-projection/both-sites-test-presence-and-agree"),
    dict(id="C01.u-D19-reintroduced-marker-only-at-its-own-epoch", prop="C01", file=CG + "fast_path.rs",
         old="        ) && self.pending_backward_projection().await.is_some()\n", new="        ) && self.pending_backward_projection().await.is_some_and(|x| x.0 == caller.timestamp())\n",
         expect="C01.u/fast_path/pending-backward-projection-is-honoured-in-later-epochs"),
    dict(id="C03.d-backward-projection-forces-re-execution-again", prop="C03", file=CG + "repair.rs",
         old="        let recompute = self\n            .recompute_decision_based_on_forward_edges(",
         new="        if matches!(caller_information.kind(), CallerKind::BackwardProjectionPropagation) {\n            return Some((lock_guard, self));\n        }\n\n        let recompute = self\n            .recompute_decision_based_on_forward_edges(",
         expect="C03.d/should_recompute_query/recompute-only-when-needed"),
    dict(id="C01.k-recompute-keeps-dirty-edges", prop="C01", file=CG + "slow_path.rs",
         old="""                execute_query_for == ExecuteQueryFor::RecomputeQuery,
                continuing_tx,""", new="""                false,
                continuing_tx,""",
         expect="C01.k/execute_query/dirty-edges-cleaned-exactly-on-recompute"),
    dict(id="C01.l-backward-projection-chunks-capped", prop="C01", file=CG + "backward_projection.rs",
         old="        for chunk in backward_projections.chunks(chunk_size) {",
         new="        for chunk in backward_projections.chunks(chunk_size).take(expected_parallelism) {",
         expect="C01.l/fan-out/no-truncating-adaptor"),
    dict(id="C01.m-abort-callee-leaves-order-entry", prop="C01", file=CG + "computing.rs",
         old="""        let mut callee_order = self.callee_info.callee_order.write();

        callee_order.abort_callee(callee);""", new="""        let _ = &self.callee_info.callee_order;""",
         expect="C01.m/callee-set-and-order-move-together"),
    dict(id="C01.m-register-callee-skips-order-when-contended", prop="C01", file=CG + "computing.rs",
         old="""                vacant_entry.insert_entry(None);

                self.callee_info.callee_order.write().push(*callee);""",
         new="""                vacant_entry.insert_entry(None);

                if let Some(mut order) = self.callee_info.callee_order.try_write() {
                    order.push(*callee);
                }""",
         expect="C01.m/callee-set-and-order-move-together"),
    dict(id="C01.n-cancelled-chunk-counts-as-clean", prop="C01", file=CG + "repair.rs",
         old="""                            Ok(
                                ChunkedCalleeCheckDecision::Cancelled
                                | ChunkedCalleeCheckDecision::Recompute,
                            )
                            | Err(_) => {""", new="""                            Ok(ChunkedCalleeCheckDecision::Cancelled) => {}
                            Ok(ChunkedCalleeCheckDecision::Recompute)
                            | Err(_) => {""",
         expect="C01.n/unordered-group/only-cleaned-chunks-count-as-clean"),
    dict(id="C01.n-tfc-diff-only-for-firewall-callees", prop="C01", file=CG + "repair.rs",
         old="            if !kind.is_firewall() {\n                let tfc_fingerprint_diff", new="            if kind.is_firewall() {\n                let tfc_fingerprint_diff",
         expect="C01.n/check_callee/tfc-diff-for-non-firewall-callees"),
    dict(id="C09.g-batch-keeps-first-op-on-an-element", prop="C09", file=ST + "write_manager/write_behind.rs",
         old="                occupied_entry.get_mut().insert(element, op);\n                false",
         new="                occupied_entry.get_mut().entry(element).or_insert(op);\n                false",
         expect="C09.g/batch/coalescing-keeps-the-latest-operation"),
    dict(id="C09.g-key-of-set-after-commit-skipped", prop="C09", file=ST + "write_manager/write_behind.rs",
         old="        self.wide_column_writes.after_commit(epoch);\n        self.key_of_set_writes.after_commit(epoch);",
         new="        self.wide_column_writes.after_commit(epoch);",
         expect="C09.g/batch/every-write-family-serialised-and-notified"),
    dict(id="C16.d-staging-unpinned-on-every-flush", prop="C16", file=ST + "key_of_set_map/cache.rs",
         old="                if unpinned {\n                    self.staging.unpin(key);\n                }",
         new="                let _ = unpinned;\n                self.staging.unpin(key);",
         expect="C16.d/unpin-only-at-zero"),
    dict(id="C09.g-snapshot-skips-deferred-messages", prop="C09", file=ST + "key_of_set_map/cache.rs",
         old="        let mut log = self.log.write();\n\n        // fix any deferred messages\n        Self::fix(&mut log, &self.deferred_messages);\n",
         new="        let log = self.log.read();\n",
         expect="C09.g/staging/snapshot-applies-deferred-messages-first"),
    dict(id="C09.g-fetch-entry-ignores-staged-removals", prop="C09", file=ST + "key_of_set_map/cache.rs",
         old="        for element in &snapshot.removed {\n            new_set.remove_element(element);\n        }\n", new="",
         expect="C09.g/fetch_entry/overlays-added-and-removed"),
    dict(id="C09.g-apply-op-pins-only-new-staging-entries", prop="C09", file=ST + "key_of_set_map/cache.rs",
         old="                    if updated {\n                        x.dirty.fetch_add(1, Ordering::SeqCst);\n                    }\n", new="",
         expect="C09.g/apply_op/pin-counter-raised-under-updated"),
    dict(id="C09.e-staging-flush-excludes-the-committed-epoch", prop="C09", file=ST + "key_of_set_map/cache.rs",
         old="                    if peek.epoch <= epoch {", new="                    if peek.epoch < epoch {",
         expect="C09.e/key-of-set/epochs"),
    dict(id="C01.o-firewall-repairers-skip-their-own-firewalls", prop="C01", file="crates/qbice/src/engine/computation_graph.rs",
         old="                CallerKind::User | CallerKind::RepairFirewall\n            ) && slow_path == SlowPath::Repair",
         new="                CallerKind::User\n            ) && slow_path == SlowPath::Repair",
         expect="C01.o/query_for/firewalls-repaired-first"),
    dict(id="C01.p-dirtied-set-not-cleared-between-sessions", prop="C01", file=CG + "input_session.rs",
         old="        engine.clear_dirtied_queries();\n", new="",
         expect="C01.p/commit_internal/dedupe-set-cleared-before-propagation"),
    dict(id="C05.b-hit-does-not-defuse-the-registration", prop="C05", file="crates/qbice/src/engine/computation_graph.rs",
         old="""                    if let Some(undo_register) = undo_register {
                        undo_register.defuse();
                    }

                    break QueryResult { return_value: value, status };""",
         new="""                    drop(undo_register);

                    break QueryResult { return_value: value, status };""",
         expect="C05.b/UndoRegisterCallee/defuse-sites"),
    dict(id="C03.a-fresh-inputs-enqueued", prop="C03", file=CG + "input_session.rs",
         old="            if set_input_result == SetInputResult::Updated {", new="            if set_input_result != SetInputResult::Unchanged {", nth=0,
         expect="C03.a/InputSession::set_input/enqueue-only-if-updated"),
    dict(id="C09.i-D10-reintroduced-half-polled-once", prop="C09", file="crates/storage/src/key_of_set_map/cache.rs",
         old="                for item in spilled.half_constructed.by_ref() {", new="                if let Some(item) = spilled.half_constructed.next() {",
         expect="C09.i/merge/filtered-source-is-drained-in-a-loop"),
    dict(id="C09.i-streaming-scan-polled-once", prop="C09", file="crates/storage/src/key_of_set_map/cache.rs",
         old="                // First drain from db_iter\n                for item in db_iter.by_ref() {", new="                // First drain from db_iter\n                if let Some(item) = db_iter.next() {",
         expect="C09.i/merge/filtered-source-is-drained-in-a-loop"),
    dict(id="C12.l-read_raw_bytes-chunks-overwrite-the-prefix", prop="C12", file="crates/serialize/src/postcard.rs",
         old='        let mut buf = vec![0u8; len];\n        self.reader.read_exact(&mut buf)?;\n        Ok(buf)',
         new='        const CHUNK: usize = 4096;\n        let mut buf = Vec::with_capacity(len.min(CHUNK));\n        let mut remaining = len;\n        while remaining > 0 {\n            let chunk = remaining.min(CHUNK);\n            buf.resize(buf.len() + chunk, 0);\n            self.reader.read_exact(&mut buf[..chunk])?;\n            remaining -= chunk;\n        }\n        Ok(buf)',
         expect="C12.l/raw-reads/every-iteration-fills-fresh-bytes"),
    dict(id="C12.l-read_raw_bytes-buffer-one-short", prop="C12", file="crates/serialize/src/postcard.rs",
         old="        let mut buf = vec![0u8; len];\n        self.reader.read_exact(&mut buf)?;", new="        let mut buf = vec![0u8; len.saturating_sub(1)];\n        self.reader.read_exact(&mut buf)?;",
         expect="C12.l/read_raw_bytes/buffer-sized-by-the-requested-length"),
    dict(id="C12.m-D11-reintroduced-raw-storage-of-an-unaligned-vector", prop="C12", file="crates/serialize/src/encode.rs",
         old='        let mut aligned = self.clone();\n        aligned.force_align();\n        for item in aligned.as_raw_slice() {', new="        for item in self.as_raw_slice() {",
         expect="C12.m/BitVec/raw-storage-read-only-when-aligned"),
    dict(id="C12.m-force_align-on-a-different-copy", prop="C12", file="crates/serialize/src/encode.rs",
         old='        let mut aligned = self.clone();\n        aligned.force_align();\n        for item in aligned.as_raw_slice() {', new="        let mut aligned = self.clone();\n        aligned.force_align();\n        let other = self.clone();\n        for item in other.as_raw_slice() {",
         expect="C12.m/BitVec/raw-storage-read-only-when-aligned"),
    dict(id="C13.c-bitvec-hash-reads-raw-storage", prop="C13", file="crates/stable_hash/src/lib.rs",
         old="impl<T: StableHash + BitStore, O: BitOrder> StableHash for BitVec<T, O> {\n    fn stable_hash<H: StableHasher + ?Sized>(&self, state: &mut H) {\n        state.write_length_prefix(self.len());\n        for item in self {",
         new="impl<T: StableHash + BitStore, O: BitOrder> StableHash for BitVec<T, O> {\n    fn stable_hash<H: StableHasher + ?Sized>(&self, state: &mut H) {\n        state.write_length_prefix(self.len());\n        for item in self.as_raw_slice() {",
         expect="C13.c/BitVec/raw-storage-read-only-when-aligned"),
    dict(id="C16.f-D12-reintroduced-unwrap-of-an-empty-probation-head", prop="C16", file="crates/storage/src/tiny_lfu/policy.rs",
         old='        let Some(victim) = self.lru.peek_least_recent(lru::Region::Probation)\n        else {\n            self.lru.move_key_to_head_of_region(unpin, lru::Region::Probation);\n            return;\n        };\n', new="        let victim =\n            self.lru.peek_least_recent(lru::Region::Probation).unwrap();\n",
         expect="C16.f/policy/region-head-unwrapped-only-under-its-own-length-test"),
    dict(id="C02.i-D14-reintroduced-cancelled-request-always-unregisters", prop="C02", file=CG + "computing.rs",
         old="        if request.in_flight > 0 || request.kept {\n            return;\n        }\n", new="",
         expect="C02.i/register_callee/undo-token-belongs-to-the-registration"),
    dict(id="C06.j-D15-reintroduced-observation-recorded-for-a-cycle-member", prop="C06", file=CG + "fast_path.rs",
         old="            && !query_caller.computing().is_in_scc()\n", new="",
         expect="C06.j/fast_path/no-observation-for-a-caller-on-a-cycle"),
    dict(id="C06.j-observation-only-for-cycle-members", prop="C06", file=CG + "fast_path.rs",
         old="            && !query_caller.computing().is_in_scc()\n", new="            && query_caller.computing().is_in_scc()\n",
         expect="C06.j/fast_path/no-observation-for-a-caller-on-a-cycle"),
    dict(id="C04.h-D13-reintroduced-tail-without-the-phase-guard", prop="C04", file=CG + "slow_path.rs",
         old="            let _active_computation_guard = active_computation_guard;\n", new="",
         expect="C04.h/reader-phase/guarded-tail-owns-the-phase-guard"),
    dict(id="C07.h-commit-sets-comitted-before-the-guarded-block", prop="C07", file=CG + "input_session.rs",
         old="        let engine = self.engine.clone();\n\n        async move {\n            self.comitted = true;\n", new="        let engine = self.engine.clone();\n        self.comitted = true;\n\n        async move {\n",
         expect="C07.h/InputSession::commit/runs-to-completion"),
    dict(id="C09.i-D16-reintroduced-streamed-member-yielded-again", prop="C09", file="crates/storage/src/key_of_set_map/cache.rs",
         old="                for item in db_iter.by_ref() {\n                    if snapshot.removed.remove(&item).not() {\n                        snapshot.added.remove(&item);\n",
         new="                for item in db_iter.by_ref() {\n                    if snapshot.removed.remove(&item).not() {\n",
         expect="C09.i/merge/store-member-is-taken-out-of-the-staged-additions"),
    dict(id="C09.i-D16-half-constructed-member-yielded-again", prop="C09", file="crates/storage/src/key_of_set_map/cache.rs",
         old="                    if snapshot.removed.contains(&item).not() {\n                        snapshot.added.remove(&item);\n",
         new="                    if snapshot.removed.contains(&item).not() {\n",
         expect="C09.i/merge/store-member-is-taken-out-of-the-staged-additions"),
    dict(id="C13.f-D17-reintroduced-path-hashed-as-raw-bytes", prop="C13", file="crates/stable_hash/src/lib.rs",
         old="        state.write_length_prefix(self.components().count());\n\n        for component in self.components() {\n            component.as_os_str().stable_hash(state);\n        }\n",
         new="        self.as_os_str().stable_hash(state);\n",
         expect="C13.f/Path/hashes-the-components-equality-compares"),
    dict(id="C13.a-path-components-without-their-count", prop="C13", file="crates/stable_hash/src/lib.rs",
         old="        state.write_length_prefix(self.components().count());\n\n        for component in self.components() {", new="        for component in self.components() {",
         expect="C13.a/"),
    dict(id="C13.a-length-prefix-skipped-for-empty", prop="C13", file="crates/stable_hash/src/lib.rs",
         old="    fn write_length_prefix(&mut self, len: usize) { self.write_usize(len); }", new="    fn write_length_prefix(&mut self, len: usize) {\n        if len != 0 {\n            self.write_usize(len);\n        }\n    }",
         expect="C13.a/write_length_prefix/writes-for-every-length"),
    dict(id="C16.i-D18-reintroduced-trim-stops-at-first-pin", prop="C16", file="crates/storage/src/tiny_lfu/policy.rs",
         old="                self.lru.shuffle_tail_to_head(lru::Region::Pinned);\n            }\n        }\n", new="                self.lru.shuffle_tail_to_head(lru::Region::Pinned);\n                break;\n            }\n        }\n",
         expect="C16.i/policy/trim-loop-continues-past-a-pinned-key"),
    dict(id="C16.h-pinned-candidate-parks-the-probation-head", prop="C16", file="crates/storage/src/tiny_lfu/policy.rs",
         old="                self.lru.move_least_recent_of_to_new_region(\n                    lru::Region::Window,\n                    lru::Region::Pinned,\n                );", new="                self.lru.move_least_recent_of_to_new_region(\n                    lru::Region::Probation,\n                    lru::Region::Pinned,\n                );",
         expect="C16.h/policy/the-refused-key-is-the-one-parked"),
    dict(id="C16.g-maintenance-flag-starts-raised", prop="C16", file="crates/storage/src/tiny_lfu.rs",
         old="            maintenance_flag: AtomicBool::new(false),", new="            maintenance_flag: AtomicBool::new(true),",
         expect="C16.g/maintenance/flag-protocol"),
    dict(id="C10.h-expected-epoch-taken-from-the-arriving-task", prop="C10", file="crates/storage/src/write_manager/write_behind.rs",
         old="        while let Ok(task) = receiver.recv() {\n            holdback_queues.push(task);", new="        while let Ok(task) = receiver.recv() {\n            current_batch.expected_epoch = task.write_buffer.epoch;\n            holdback_queues.push(task);",
         expect="C10.h/expected_epoch/only-advanced-by-one-after-applying"),
    dict(id="C09.k-D20-writer-does-not-mark-the-flight", prop="C09", file="crates/storage/src/key_of_set_map/cache.rs",
         old="        self.repr.single_flight.invalidate(key);\n", new="",
         expect="C09.k/key-of-set/cold-load-and-concurrent-write-are-ordered"),
    dict(id="C09.m-D20-wide-column-writer-does-not-mark-the-flight", prop="C09", file="crates/storage/src/wide_column_cache.rs",
         old="        // see `insert`\n        self.single_flight.invalidate(key);\n", new="",
         expect="C09.m/wide-column/late-fill-is-ordered-with-writes"),
    dict(id="C09.m-D20-no-second-look-inside-the-flight", prop="C09", file="crates/storage/src/wide_column_cache.rs",
         old="                    if self.tiny_lfu.entry(key.clone(), |entry| {\n                        matches!(entry, tiny_lfu::Entry::Occupied(_))\n                    }) {\n                        return;\n                    }\n", new="",
         expect="C09.m/wide-column/late-fill-is-ordered-with-writes"),
    dict(id="C09.o-invalidate-detaches-the-flight", prop="C09", file="crates/storage/src/single_flight.rs",
         old="        let flight = self.map.read_shard(shard_index).get(key).cloned();", new="        let flight = self.map.write_shard(shard_index).remove(key);",
         expect="C09.o/single-flight/only-the-worker-unregisters-its-flight"),
    dict(id="C12.k-varint-reader-u128-stops-on-set-bit", prop="C12", file="crates/serialize/src/postcard.rs",
         old="            result |= u128::from(byte & 0x7F) << shift;\n\n            if byte & 0x80 == 0 {",
         new="            result |= u128::from(byte & 0x7F) << shift;\n\n            if byte & 0x80 != 0 {",
         expect="C12.k/varint-readers/siblings-agree-and-stop-on-a-clear-continuation-bit"),
    dict(id="C12.k-varint-reader-u16-keeps-the-continuation-bit", prop="C12", file="crates/serialize/src/postcard.rs",
         old="            result |= u16::from(byte & 0x7F) << shift;", new="            result |= u16::from(byte & 0xFF) << shift;",
         expect="C12.k/varint-readers/siblings-agree-and-stop-on-a-clear-continuation-bit"),
    dict(id="C12.k-varint-reader-u32-overflow-guard-off", prop="C12", file="crates/serialize/src/postcard.rs",
         old="            if shift >= 32 {", new="            if shift > 32 {",
         expect="C12.k/varint-readers/siblings-agree-and-stop-on-a-clear-continuation-bit"),
    dict(id="C12.g-zigzag-decode-arithmetic-shift", prop="C12", file="crates/serialize/src/postcard.rs",
         old="const fn zigzag_decode_i32(value: u32) -> i32 {\n    ((value >> 1) as i32) ^ (-((value & 1) as i32))",
         new="const fn zigzag_decode_i32(value: u32) -> i32 {\n    ((value as i32) >> 1) ^ (-((value & 1) as i32))",
         expect="C12.g/witness/zigzag-is-the-standard-bijection"),
    dict(id="C12.g-varint-u64-continuation-off-by-one", prop="C12", file="crates/serialize/src/postcard.rs",
         old="    mut value: u64,\n    buf: &mut [u8; MAX_VARINT_U64_BYTES],\n) -> usize {\n    let mut i = 0;\n    while value >= 0x80 {",
         new="    mut value: u64,\n    buf: &mut [u8; MAX_VARINT_U64_BYTES],\n) -> usize {\n    let mut i = 0;\n    while value > 0x80 {",
         expect="C12.g/witness/varint-encoder-is-leb128"),
    dict(id="C12.g-zigzag-encode-i16-wrong-sign-shift", prop="C12", file="crates/serialize/src/postcard.rs",
         old="    ((value << 1) ^ (value >> 15)) as u16", new="    ((value << 1) ^ (value >> 14)) as u16",
         expect="C12.g/witness/zigzag-is-the-standard-bijection"),
    dict(id="C05.f-panicked-chunk-counts-as-clean", prop="C05", file=CG + "repair.rs",
         old="""                            Ok(
                                ChunkedCalleeCheckDecision::Cancelled
                                | ChunkedCalleeCheckDecision::Recompute,
                            )
                            | Err(_) => {""", new="""                            Err(_) => {}
                            Ok(
                                ChunkedCalleeCheckDecision::Cancelled
                                | ChunkedCalleeCheckDecision::Recompute,
                            ) => {""",
         expect="C05.f/unordered-group/only-cleaned-chunks-count-as-clean"),
    dict(id="C06.e-D7-observation-unwrapped", prop="C06", file=CG + "repair.rs",
         old="""            let value_fingerprint_diff = callee_node_info.value_fingerprint()
                != observation.seen_value_fingerprint;""",
         new="""            let value_fingerprint_diff = callee_node_info.value_fingerprint()
                != forward_edge_observation.0.get(callee).unwrap().seen_value_fingerprint;""",
         expect="C06.e/check_callee/observation-of-a-cyclic-edge-may-be-missing"),
    dict(id="C06.d-scc-check-before-defuse", prop="C06", file="crates/qbice/src/engine/computation_graph.rs",
         old="""                FastPathResult::Hit(value) => {
                    // defuse the undo""",
         new="""                FastPathResult::Hit(value) => {
                    Self::is_query_running_in_scc(caller)?;
                    // defuse the undo""",
         expect="C06.d/query_for/completed-calls-keep-their-dependency"),
    dict(id="C13.a-write-str-without-length", prop="C13", file="crates/stable_hash/src/lib.rs",
         old="        self.write_length_prefix(s.len());\n        self.write(s.as_bytes());", new="        self.write(s.as_bytes());",
         expect="C13.a/length-before-raw-bytes"),
    dict(id="C13.d-char-truncated-to-a-byte", prop="C13", file="crates/stable_hash/src/lib.rs",
         old="        state.write_u32(*self as u32);", new="        state.write_u8(*self as u8);",
         expect="C13.d/no-narrowing-cast-in-a-hash-body"),
    dict(id="C13.b-hashmap-key-and-value-hashed-separately", prop="C13", file="crates/stable_hash/src/lib.rs",
         old="""            combined = combined.wrapping_add(state.sub_hash(&mut |sub| {
                key.stable_hash(sub);
                value.stable_hash(sub);
            }));""", new="""            combined = combined.wrapping_add(state.sub_hash(&mut |sub| {
                key.stable_hash(sub);
            }));
            combined = combined.wrapping_add(state.sub_hash(&mut |sub| {
                value.stable_hash(sub);
            }));""",
         expect="C13.b/order-independent/HashMap<K, V, B>"),
    dict(id="C13.a-cow-hashes-its-variant", prop="C13", file="crates/stable_hash/src/lib.rs",
         old="impl<T: StableHash + Clone> StableHash for std::borrow::Cow<'_, T> {\n    fn stable_hash<H: StableHasher + ?Sized>(&self, state: &mut H) {\n",
         new="impl<T: StableHash + Clone> StableHash for std::borrow::Cow<'_, T> {\n    fn stable_hash<H: StableHasher + ?Sized>(&self, state: &mut H) {\n        state.write_u8(u8::from(matches!(self, std::borrow::Cow::Owned(_))));\n",
         expect="C13.a/discriminant-before-alternation/Cow"),
    dict(id="C13.a-hashset-len-not-hashed", prop="C13", file="crates/stable_hash/src/lib.rs",
         old="        self.len().stable_hash(state);\n        let mut combined = H::Hash::default();\n\n        for value in self {",
         new="        let mut combined = H::Hash::default();\n\n        for value in self {", nth=0,
         expect="C13.a/length-before-repetition/HashSet"),
    dict(id="C15.a-lookup-selects-shard-by-the-other-word", prop="C15", file=ST + "intern.rs",
         old="        let shard_index = typed_shard.shard_index(hash_128.low());", new="        let shard_index = typed_shard.shard_index(hash_128.high());", nth=0,
         expect="C15.a/shard-selection-agrees"),
    dict(id="C15.a-dead-entry-revived-without-publishing", prop="C15", file=ST + "intern.rs",
         old="""                    // The weak reference is dead, we can replace it
                    let arc = Arc::new(value);
                    let weak = Arc::downgrade(&arc);

                    entry.insert(weak);
""", new="""                    // The weak reference is dead, we can replace it
                    let arc = Arc::new(value);
""", nth=0,
         expect="C15.a/Interner::intern/double-checked-insertion"),
    dict(id="C11.d-rocksdb-insert-member-addresses-a-wide-column", prop="C11", file=ST + "kv_database/rocksdb.rs",
         old="        let cf = self.db.get_or_create_cf::<C>(ColumnKind::KeyOfSet);", new="        let cf = self.db.get_or_create_cf::<C>(ColumnKind::WideColumn);", nth=0,
         expect="C11.d/rocksdb/column-kind-per-site-family"),
    dict(id="C11.d-fjall-buffer-delete-member-addresses-a-wide-column", prop="C11", file=ST + "kv_database/fjall.rs",
         old="            cf: self.db.get_or_create_keyspace::<C>(ColumnKind::KeyOfSet),", new="            cf: self.db.get_or_create_keyspace::<C>(ColumnKind::WideColumn),", nth=1,
         expect="C11.d/fjall/column-kind-per-site-family"),
    dict(id="C09.g-cache-consulted-before-the-staging-snapshot-and-hit-returns-without", prop="C09", file=ST + "key_of_set_map/cache.rs",
         old="""            let staging_snapshot = self.get_staging_snapshot(key);
            let mut spilled = None;

            if let Some(entry) = self.repr.cache.get(key) {
                return (entry, staging_snapshot, spilled);
            }
""", new="""            let mut spilled = None;

            if let Some(entry) = self.repr.cache.get(key) {
                return (entry, StagingShapshot { added: Default::default(), removed: Default::default() }, spilled);
            }

            let staging_snapshot = self.get_staging_snapshot(key);
""",
         expect="C09.g/key-of-set/staging-sampled-before-the-store"),
    dict(id="C13.e-derive-skips-last-tuple-field", prop="C13", file="crates/stable_hash_derive/src/lib.rs",
         old="            let field_hashes = fields.unnamed.iter().enumerate().map(|(i, _)| {",
         new="            let field_hashes = fields.unnamed.iter().enumerate().skip(1).map(|(i, _)| {",
         expect="C13.e/derive/every-field-hashed-once"),
    dict(id="C12.h-derive-tuple-struct-index-after-filter", prop="C12", file="crates/serialize_derive/src/lib.rs",
         old="                .enumerate()\n                .filter(|(_, field)| !should_skip(field))",
         new="                .filter(|field| !should_skip(field))\n                .enumerate()", nth=0,
         expect="C12.h/derive-shapes/"),
    dict(id="C13.e-derive-enum-without-discriminant", prop="C13", file="crates/stable_hash_derive/src/lib.rs",
         old="""        #trait_crate_path::StableHash::stable_hash(
            &::std::mem::discriminant(self),
            state
        );

        match self {""", new="""        match self {""",
         expect="C13.e/discriminant-before-alternation"),
    dict(id="C13.e-derive-enum-named-variant-drops-first-field", prop="C13", file="crates/stable_hash_derive/src/lib.rs",
         old="                let field_hashes = field_names.iter().map(|field_name| {",
         new="                let field_hashes = field_names.iter().skip(1).map(|field_name| {",
         expect="C13.e/derive/every-field-hashed-once"),
    dict(id="C16.e-lru-remove-keeps-the-region-length", prop="C16", file=ST + "tiny_lfu/lru.rs",
         old="        self.list.unlink(node_ptr, region);\n        self.list.lens[region as usize] -= 1;\n",
         new="        self.list.unlink(node_ptr, region);\n",
         expect="C16.e/lru/region-counters-and-tags-follow-list-moves"),
    dict(id="C16.e-lru-move-keeps-the-old-region-tag", prop="C16", file=ST + "tiny_lfu/lru.rs",
         old="        let key = unsafe { &tail_ptr.as_ref().key };\n        let (_, region) = self.map.get_mut(key).unwrap();\n        *region = to_region;\n",
         new="        let key = unsafe { &tail_ptr.as_ref().key };\n        let _ = self.map.get_mut(key).unwrap();\n",
         expect="C16.e/lru/region-counters-and-tags-follow-list-moves"),
    dict(id="C02.d-occupied-lock-entry-ignored", prop="C02", file=CG + "query_lock_manager.rs",
         old="                occupied_entry.get().clone()", new="                { let _ = occupied_entry.get(); lock_instance }",
         expect="C02.d/lock-instance-cloned-under-entry"),
    dict(id="C02.d-lock-guard-without-the-arc", prop="C02", file=CG + "query_lock_manager.rs",
         old="        let guard = lock_instance.0.clone().write_owned().await;", new="        let guard = Arc::new(RwLock::new(())).write_owned().await;\n        let _ = &lock_instance;",
         expect="C02.d/QueryLockManager::acquire_exclusive_lock/locks-table-instance"),
    dict(id="C16.e-lru-length-taken-off-the-destination-region", prop="C16", file=ST + "tiny_lfu/lru.rs",
         old="""        self.list.unlink(*node_ptr, *region);
        self.list.push_head(*node_ptr, new_region);

        self.list.lens[new_region as usize] += 1;
        self.list.lens[*region as usize] -= 1;

        *region = new_region;""",
         new="""        let old_region = std::mem::replace(region, new_region);

        self.list.unlink(*node_ptr, old_region);
        self.list.push_head(*node_ptr, new_region);

        self.list.lens[new_region as usize] += 1;
        self.list.lens[*region as usize] -= 1;""",
         expect="C16.e/lru/region-counters-and-tags-follow-list-moves"),
    dict(id="C02.f-upgrade-keeps-memoised-node-info", prop="C02", file=CG + "database/snapshot.rs",
         old="        self.query_kind = None;\n        self.node_info = None;\n", new="        self.query_kind = None;\n",
         expect="C02.f/Snapshot::upgrade_to_exclusive/forgets-every-memoised-column"),
    dict(id="C01.c-buffered-dirty-edge-with-roles-swapped", prop="C01", file=CG + "dirty_worker.rs",
         old="                    task.push_to_buffer(Edge::new(caller, *task.query_id()));", new="                    task.push_to_buffer(Edge::new(*task.query_id(), caller));",
         expect="C01.c/edge-roles"),
    dict(id="C01.c-dirty-test-with-roles-swapped", prop="C01", file=CG + "repair.rs",
         old="        let edge_is_dirty = engine.is_edge_dirty(*query_id, *callee).await;", new="        let edge_is_dirty = engine.is_edge_dirty(*callee, *query_id).await;",
         expect="C01.c/edge-roles"),
    dict(id="C01.a-dirty-mark-with-roles-swapped", prop="C01", file=CG + "dirty_worker.rs",
         old="""                        .mark_dirty_forward_edge(
                            caller,
                            *task.query_id(),
                            &mut *write_tx,
                        )""", new="""                        .mark_dirty_forward_edge(
                            *task.query_id(),
                            caller,
                            &mut *write_tx,
                        )""",
         expect="C01."),
    dict(id="C03.i-recompute-decided-before-the-callee-is-repaired", prop="C03", file=CG + "repair.rs",
         old="        let kind = engine.get_query_kind(callee).await;\n\n        // NOTE: if the callee is an input",
         new="""        let kind = engine.get_query_kind(callee).await;

        {
            let stored = unsafe { engine.get_node_info_unchecked(callee).await };
            if stored.value_fingerprint() != observation.seen_value_fingerprint {
                return CalleeCheckDecision::Recompute;
            }
        }

        // NOTE: if the callee is an input""",
         expect="C03.i/check_callee/cleaned-requires-equal-fingerprint"),
    dict(id="C13.e-range-hash-drops-start", prop="C13", file="crates/stable_hash/src/lib.rs",
         old="        self.start.stable_hash(state);\n        self.end.stable_hash(state);", new="        self.end.stable_hash(state);", nth=0,
         expect="C13.e/hand-written/every-field-hashed"),
    dict(id="C01.k-dirty-edges-cleaned-on-fresh-not-recompute", prop="C01", file=CG + "slow_path.rs",
         old="                execute_query_for == ExecuteQueryFor::RecomputeQuery,\n                continuing_tx,",
         new="                execute_query_for != ExecuteQueryFor::RecomputeQuery,\n                continuing_tx,",
         expect="C01.k/execute_query/dirty-edges-cleaned-exactly-on-recompute"),
    dict(id="C01.q-drain-pops-before-the-limit-check", prop="C01", file=CG + "dirty_worker/task.rs",
         old="""                    if count == 0 {
                        None
                    } else {
                        count -= 1;
                        queue.pop()
                    }""",
         new="""                    let edge = queue.pop()?;

                    if count == 0 {
                        return None;
                    }

                    count -= 1;
                    Some(edge)""",
         expect="C01.q/stripped-buffer/every-popped-edge-is-handed-out"),
    dict(id="C01.r-hit-without-observation", prop="C01", file=CG + "fast_path.rs",
         old="            self.observe_callee_fingerprint(query_caller, &node_info, kind);", new="            let _ = (query_caller, &node_info, kind);",
         expect="C01.r/fast_path/hit-records-the-observation"),
    dict(id="C01.r-abort-callee-removes-another-id", prop="C01", file=CG + "computing.rs",
         old="                    if let Some(pos) = qids.iter().position(|x| x == callee) {", new="                    if let Some(pos) = qids.iter().position(|x| x != callee) {",
         expect="C01.r/CalleeOrder::abort_callee/removes-exactly-the-callee"),
    dict(id="C16.b-confirmed-victim-stays-in-the-policy", prop="C16", file=ST + "tiny_lfu/policy.rs",
         old="                self.lru.pop_least_recent(lru::Region::Probation).unwrap();", new="                ();",
         expect="C16.b/policy/forget-only-after-confirmation"),
    dict(id="C09.h-in-memory-insert-into-existing-set-dropped", prop="C09", file=ST + "key_of_set_map/in_memory.rs",
         old="        if let Some(set) = set {\n            set.insert_element(element);\n            return;", new="        if let Some(set) = set {\n            let _ = (set, element);\n            return;",
         expect="C09.h/in-memory/insert-reaches-the-set-on-every-path"),
    dict(id="C01.r-backward-projection-schedules-non-projections", prop="C01", file=CG + "backward_projection.rs",
         old="            if query_kind.is_projection() {", new="            if !(query_kind.is_projection()) {",
         expect="C01.r/invoke_backward_projections/exactly-the-projection-callers"),
    dict(id="C02.f-upgrade-returns-early-unless-exclusive", prop="C02", file=CG + "database/snapshot.rs",
         old="        if matches!(self.lock.as_ref(), Some(QueryLock::Exclusive(_))) {", new="        if !(matches!(self.lock.as_ref(), Some(QueryLock::Exclusive(_)))) {",
         expect="C02.f/Snapshot::upgrade_to_exclusive"),
    dict(id="C06.f-repairing-callers-are-not-registered", prop="C06", file=CG + "register_callee.rs",
         old="                let computing = caller.computing();\n", new="                if !caller.require_value() {\n                    return None;\n                }\n\n                let computing = caller.computing();\n",
         expect="C06.f/register_callee/every-query-caller-is-registered"),
    dict(id="C01.r-abort-callee-swap-remove-on-the-ordered-list", prop="C01", file=CG + "computing.rs",
         old="                        self.order.remove(i);", new="                        self.order.swap_remove(i);",
         expect="C01.r/CalleeOrder/order-preserving-updates"),
    dict(id="C09.g-fetch-entry-drops-the-member-that-trips-the-threshold", prop="C09", file=ST + "key_of_set_map/cache.rs",
         old="            new_set.insert_element(element);\n            count += 1;\n", new="            count += 1;\n            if count <= 1024 {\n                new_set.insert_element(element);\n            }\n",
         expect="C09.g/fetch_entry/overlays-added-and-removed"),
    dict(id="C01.s-D8-observations-not-stored-with-the-rebuilt-set", prop="C01", file=CG + "database.rs",
         old="""            self.engine()
                .computation_graph
                .database
                .forward_edge_observation
                .insert(*self.query_id(), new_observations, &mut tx)
                .await;
        }""", new="""            let _ = new_observations;
        }""",
         expect="C01.s/clean_query/firewall-set-and-observations-replaced-together"),
    dict(id="C05.e-guard-drop-skips-when-panicking", prop="C05", file="crates/qbice/src/engine/guard.rs",
         old="        if let Some(future) = self.future.take() {", new="        if std::thread::panicking() {\n            return;\n        }\n\n        if let Some(future) = self.future.take() {",
         expect="C05.e/Guard/drop-spawns"),
    dict(id="C06.h-D9-cyclic-answer-of-callee-repair-discarded", prop="C06", file=CG + "repair.rs",
         old="            if repaired.is_err() {\n                return CalleeCheckDecision::Recompute;\n            }\n", new="            let _ = repaired;\n",
         expect="C06.h/check_callee/cyclic-answer-of-the-callee-repair-is-not-discarded"),
    # ------------------------------------------------------------------ C09.f (D5)
    dict(id="C09.f-D5-fold-heap-in-arbitrary-order", prop="C09", file=ST + "key_of_set_map/cache.rs",
         old="""        let mut ordered = log.iter().collect::<Vec<_>>();
        ordered.sort_unstable_by_key(|op| (op.epoch, op.sequence));

        for op in ordered {
            match &op.op {
                Operation::Insert(v) => {
                    removed.remove(v);
                    added.insert(v.clone());
                }
                Operation::Remove(v) => {
                    added.remove(v);
                    removed.insert(v.clone());
                }
            }
        }""",
         new="""        for op in log.iter() {
            let _ = op.sequence;
            match &op.op {
                Operation::Insert(v) => {
                    if removed.remove(v).not() {
                        added.insert(v.clone());
                    }
                }
                Operation::Remove(v) => {
                    if added.remove(v).not() {
                        removed.insert(v.clone());
                    }
                }
            }
        }""",
         expect="C09.f/order-sensitive-fold/ConcurrentLog::get_snapshot"),
    dict(id="C09.f-sort-by-epoch-only", prop="C09", file=ST + "key_of_set_map/cache.rs",
         old="        ordered.sort_unstable_by_key(|op| (op.epoch, op.sequence));",
         new="        ordered.sort_unstable_by_key(|op| op.epoch);",
         expect="C09.f/get_snapshot/replay-in-issue-order"),
]

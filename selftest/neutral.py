#!/usr/bin/env python3
"""Behaviour-preserving edits of /repo (renamed locals, swapped operands of a symmetric comparison, reordered
independent statements, an added trace line, an equivalent constructor, ...).  Every registered check must stay
SILENT on each of them: a rule that fires here is a false alarm in waiting.
usage: selftest/neutral.py [id-regex]        (not a registered command)"""
import os
import re
import subprocess
import sys
import time

HERE = os.path.dirname(os.path.abspath(__file__))
VERIF = os.path.dirname(HERE)
SCRATCH = os.environ.get("QBV_SELFTEST_DIR", "/tmp/qbv-selftest")
CG = "crates/qbice/src/engine/computation_graph/"
ST = "crates/storage/src/"

NEUTRAL = [
    dict(id="N01-fast-path-operands-swapped", file=CG + "fast_path.rs",
         edits=[("        if last_verified.0 != caller.timestamp() {", "        if caller.timestamp() != last_verified.0 {")]),
    dict(id="N02-fast-path-epoch-in-a-local", file=CG + "fast_path.rs",
         edits=[("        if last_verified.0 != caller.timestamp() {",
                 "        let now = caller.timestamp();\n        if last_verified.0 != now {")]),
    dict(id="N03-pending-commits-extra-local", file=ST + "write_manager/write_behind.rs",
         edits=[("        while let Some(top) = pending_commits.peek() {",
                 "        let _parked = pending_commits.len();\n        while let Some(top) = pending_commits.peek() {")]),
    dict(id="N04-upper-bound-renamed-index", file=ST + "kv_database/rocksdb.rs",
         edits=[("""        for i in (0..upper_bound.len()).rev() {
            if upper_bound[i] < 0xFF {
                upper_bound[i] += 1;
                upper_bound.truncate(i + 1);""",
                 """        for idx in (0..upper_bound.len()).rev() {
            if upper_bound[idx] < 0xFF {
                upper_bound[idx] += 1;
                upper_bound.truncate(idx + 1);""")]),
    dict(id="N05-range-decoded-with-struct-literal", file="crates/serialize/src/decode.rs",
         edits=[("        let end = T::decode(decoder, plugin, session)?;\n        Ok(start..end)",
                 "        let end = T::decode(decoder, plugin, session)?;\n        Ok(std::ops::Range { start, end })")]),
    dict(id="N06-intern-renamed-flag", file=ST + "intern.rs",
         edits=[("        let first = seen_interned.insert(InternedID {", "        let newly_seen = seen_interned.insert(InternedID {"),
                ("        if first {\n            // serialize the full value", "        if newly_seen {\n            // serialize the full value")]),
    dict(id="N07-intern-negated-branch", file=ST + "intern.rs",
         edits=[("""        if first {
            // serialize the full value
            encoder.emit_u8(0)?;
            value.encode(encoder, plugin, session)
        } else {
            // serialize only the reference
            encoder.emit_u8(1)?;
            compact_128.encode(encoder, plugin, session)
        }""", """        if !first {
            // serialize only the reference
            encoder.emit_u8(1)?;
            compact_128.encode(encoder, plugin, session)
        } else {
            // serialize the full value
            encoder.emit_u8(0)?;
            value.encode(encoder, plugin, session)
        }""")]),
    dict(id="N08-set-computed-independent-columns-reordered", file=CG + "database.rs",
         edits=[("""            self.engine()
                .computation_graph
                .database
                .forward_edge_order
                .insert(*self.query_id(), forward_edge_order, &mut tx)
                .await;

            self.engine()
                .computation_graph
                .database
                .forward_edge_observation
                .insert(*self.query_id(), forward_edge_observations, &mut tx)
                .await;
""", """            self.engine()
                .computation_graph
                .database
                .forward_edge_observation
                .insert(*self.query_id(), forward_edge_observations, &mut tx)
                .await;

            self.engine()
                .computation_graph
                .database
                .forward_edge_order
                .insert(*self.query_id(), forward_edge_order, &mut tx)
                .await;
""")], nth=0),
    dict(id="N09-trace-line-in-fast-path", file=CG + "fast_path.rs",
         edits=[("        // check if we have the existing query info\n",
                 "        tracing::trace!(\"fast path\");\n        // check if we have the existing query info\n")]),
    dict(id="N10-slice-hash-iter", file="crates/stable_hash/src/lib.rs",
         edits=[("        state.write_length_prefix(self.len());\n        for item in self {\n            item.stable_hash(state);\n        }",
                 "        let n = self.len();\n        state.write_length_prefix(n);\n        for item in self.iter() {\n            item.stable_hash(state);\n        }")], nth=0),
    dict(id="N11-cache-insert-flag-matched", file=ST + "wide_column_cache.rs",
         edits=[("                    if updated {\n                        *entry.get_mut().pin_count.get_mut() += 1;\n                    }",
                 "                    if updated {\n                        let pins = entry.get_mut().pin_count.get_mut();\n                        *pins += 1;\n                    }")]),
    dict(id="N12-cycle-probe-renamed-locals", file=CG + "computing.rs",
         edits=[("        let mut next = 0;\n        while next < nodes.len() {\n            let current = nodes[next].clone();\n\n            reaches_target[next] =",
                 "        let mut cursor = 0;\n        while cursor < nodes.len() {\n            let current = nodes[cursor].clone();\n\n            reaches_target[cursor] ="),
                ("                edges[next].push(callee_index);\n            }\n\n            next += 1;",
                 "                edges[cursor].push(callee_index);\n            }\n\n            cursor += 1;")]),
    dict(id="N13-firewall-stop-as-if-let", file=CG + "dirty_worker.rs",
         edits=[("""            if matches!(
                query_kind,
                QueryKind::Executable(
                    ExecutionStyle::Projection | ExecutionStyle::Firewall
                )
            ) {""", """            if let QueryKind::Executable(
                ExecutionStyle::Projection | ExecutionStyle::Firewall,
            ) = query_kind
            {""")]),
    dict(id="N14-dirty-task-callee-in-a-local", file=CG + "dirty_worker.rs",
         edits=[("""                        .mark_dirty_forward_edge(
                            caller,
                            *task.query_id(),
                            &mut *write_tx,
                        )""", """                        .mark_dirty_forward_edge(
                            caller,
                            query_id,
                            &mut *write_tx,
                        )""")]),
    dict(id="N15-pin-predicate-in-a-local", file=ST + "tiny_lfu.rs",
         edits=[("                        !self.lifecycle_listener.is_pinned(evicted_key, value)\n",
                 "                        let pinned = self.lifecycle_listener.is_pinned(evicted_key, value);\n                        !pinned\n")]),
    dict(id="N16-renamed-transaction-parameter", file=CG + "dirty_worker.rs",
         edits=[("        skip(self, query_id, trasnaction),", "        skip(self, query_id, transaction),"),
                ("        trasnaction: WriteTransaction<C>,", "        transaction: WriteTransaction<C>,"),
                ("        let write_tx = Arc::new(Mutex::new(trasnaction));", "        let write_tx = Arc::new(Mutex::new(transaction));")]),
    dict(id="N17-backlog-loop-as-loop-match", file=ST + "write_manager/write_behind.rs",
         edits=[("        while let Some(top) = pending_commits.peek() {\n            if top.write_buffer.epoch == current_batch.expected_epoch {",
                 "        while let Some(top) = pending_commits.peek() {\n            if current_batch.expected_epoch == top.write_buffer.epoch {")]),
    dict(id="N18-repair-flag-or-assigned", file=CG + "repair.rs",
         edits=[("""                                cleaned_edges.append(&mut edges);

                                if repair_tfc_needed {
                                    repair_transitive_firewall_callees = true;
                                }""", """                                cleaned_edges.extend(edges.drain(..));

                                repair_transitive_firewall_callees |=
                                    repair_tfc_needed;""")]),
    dict(id="N19-tfc-observe-as-if-chain", file=CG + "computing.rs",
         edits=[("""        match callee_kind {
            QueryKind::Input
            | QueryKind::Executable(ExecutionStyle::ExternalInput) => {
                // input queries do not contribute to tfc archetype
            }

            QueryKind::Executable(
                ExecutionStyle::Normal | ExecutionStyle::Projection,
            ) => {
                for q in
                    callee_info.transitive_firewall_callees().iter().copied()
                {
                    let _ = self.tfc.insert_sync(q);
                }
            }
            QueryKind::Executable(ExecutionStyle::Firewall) => {
                let _ = self.tfc.insert_sync(callee_id);
            }
        }""", """        if let QueryKind::Executable(ExecutionStyle::Firewall) = callee_kind {
            let _ = self.tfc.insert_sync(callee_id);
        } else if let QueryKind::Executable(
            ExecutionStyle::Normal | ExecutionStyle::Projection,
        ) = callee_kind
        {
            for q in callee_info.transitive_firewall_callees().iter().copied() {
                let _ = self.tfc.insert_sync(q);
            }
        }""")]),
    dict(id="N20-check-callee-early-continue-style", file=CG + "repair.rs",
         edits=[("""            if !kind.is_firewall() {
                let tfc_fingerprint_diff = callee_node_info""", """            let callee_is_firewall = kind.is_firewall();
            if !callee_is_firewall {
                let tfc_fingerprint_diff = callee_node_info""")]),
    dict(id="N21-abort-callee-order-first", file=CG + "computing.rs",
         edits=[("""        assert!(self.callee_info.callee_queries.remove_sync(callee).is_some());

        let mut callee_order = self.callee_info.callee_order.write();

        callee_order.abort_callee(callee);""", """        self.callee_info.callee_order.write().abort_callee(callee);

        assert!(self.callee_info.callee_queries.remove_sync(callee).is_some());""")]),
    dict(id="N22-pedantic-flag-in-a-local", file=CG + "repair.rs",
         edits=[("""                                query_computing.clone(),
                                pedantic_repair,
                            ),""", """                                query_computing.clone(),
                                { let strict = pedantic_repair; strict },
                            ),""")]),
    dict(id="N24-lru-move-with-mem-replace-done-right", file=ST + "tiny_lfu/lru.rs",
         edits=[("""        self.list.unlink(*node_ptr, *region);
        self.list.push_head(*node_ptr, new_region);

        self.list.lens[new_region as usize] += 1;
        self.list.lens[*region as usize] -= 1;

        *region = new_region;""", """        let old_region = std::mem::replace(region, new_region);

        self.list.unlink(*node_ptr, old_region);
        self.list.push_head(*node_ptr, new_region);

        self.list.lens[new_region as usize] += 1;
        self.list.lens[old_region as usize] -= 1;""")]),
    dict(id="N25-derived-hash-discriminant-inside-every-arm", file="crates/stable_hash_derive/src/lib.rs",
         edits=[("""                quote! {
                    Self::#variant_name { #(#field_names),* } => {
                        #(#field_hashes)*
                    }
                }""", """                quote! {
                    Self::#variant_name { #(#field_names),* } => {
                        #trait_crate_path::StableHash::stable_hash(&::std::mem::discriminant(self), state);
                        #(#field_hashes)*
                    }
                }"""), ("""                quote! {
                    Self::#variant_name(#(#field_bindings),*) => {
                        #(#field_hashes)*
                    }
                }""", """                quote! {
                    Self::#variant_name(#(#field_bindings),*) => {
                        #trait_crate_path::StableHash::stable_hash(&::std::mem::discriminant(self), state);
                        #(#field_hashes)*
                    }
                }"""), ("""                quote! {
                    Self::#variant_name => {}
                }""", """                quote! {
                    Self::#variant_name => {
                        #trait_crate_path::StableHash::stable_hash(&::std::mem::discriminant(self), state);
                    }
                }"""), ("""        #trait_crate_path::StableHash::stable_hash(
            &::std::mem::discriminant(self),
            state
        );

        match self {""", """        match self {""")]),
    # documented limitation (DESIGN 11.4b): moving an anchored statement into a new helper function makes the rule lose
    # its anchor; it then FAILS CLOSED with an `anchors missing` report instead of deciding.  Kept to watch that this
    # stays a coverage report and never turns into a wrong diagnosis.
    dict(id="N23-committer-apply-step-extracted-into-a-helper", file=ST + "write_manager/write_behind.rs",
         edits=[("""                let task = pending_commits.pop().unwrap();

                current_batch
                    .db_write_batch
                    .consume_serialization_buffer(task.serialize_buffer);

                // push into current batch
                current_batch.processed_logical_batch.push(task.write_buffer);

                current_batch.expected_epoch.0 += 1;
""", """                let task = pending_commits.pop().unwrap();

                Self::apply_task(current_batch, task);
"""), ("""    fn process_pending_commits(""", """    fn apply_task(current_batch: &mut CurrentBatch<Db>, task: WriteTask<Db>) {
        current_batch
            .db_write_batch
            .consume_serialization_buffer(task.serialize_buffer);

        // push into current batch
        current_batch.processed_logical_batch.push(task.write_buffer);

        current_batch.expected_epoch.0 += 1;
    }

    fn process_pending_commits(""")]),
    dict(id="N26-varint-readers-test-the-byte-instead-of-the-bit", file="crates/serialize/src/postcard.rs",
         edits=[("""            result |= u16::from(byte & 0x7F) << shift;

            if byte & 0x80 == 0 {""", """            result |= u16::from(byte & 0x7F) << shift;

            if byte < 0x80 {"""),
                ("""            result |= u32::from(byte & 0x7F) << shift;

            if byte & 0x80 == 0 {""", """            result |= u32::from(byte & 0x7F) << shift;

            if byte < 0x80 {"""),
                ("""            result |= u64::from(byte & 0x7F) << shift;

            if byte & 0x80 == 0 {""", """            result |= u64::from(byte & 0x7F) << shift;

            if byte < 0x80 {"""),
                ("""            result |= u128::from(byte & 0x7F) << shift;

            if byte & 0x80 == 0 {""", """            result |= u128::from(byte & 0x7F) << shift;

            if byte < 0x80 {""")]),
    dict(id="N27-spilled-half-drained-by-while-let", file="crates/storage/src/key_of_set_map/cache.rs",
         edits=[("""                for item in spilled.half_constructed.by_ref() {""", """                while let Some(item) = spilled.half_constructed.next() {""")]),
    dict(id="N28-read_raw_bytes-chunked-with-a-moving-start", file="crates/serialize/src/postcard.rs",
         edits=[('        let mut buf = vec![0u8; len];\n        self.reader.read_exact(&mut buf)?;\n        Ok(buf)', '        const CHUNK: usize = 4096;\n        let mut buf = Vec::with_capacity(len.min(CHUNK));\n        let mut remaining = len;\n        while remaining > 0 {\n            let chunk = remaining.min(CHUNK);\n            buf.resize(buf.len() + chunk, 0);\n            let start = buf.len() - chunk;\n            self.reader.read_exact(&mut buf[start..])?;\n            remaining -= chunk;\n        }\n        Ok(buf)')]),
    dict(id="N29-read_raw_bytes-chunked-through-a-scratch-buffer", file="crates/serialize/src/postcard.rs",
         edits=[('        let mut buf = vec![0u8; len];\n        self.reader.read_exact(&mut buf)?;\n        Ok(buf)', '        const CHUNK: usize = 4096;\n        let mut tmp = [0u8; CHUNK];\n        let mut buf = Vec::with_capacity(len.min(CHUNK));\n        let mut remaining = len;\n        while remaining > 0 {\n            let chunk = remaining.min(CHUNK);\n            self.reader.read_exact(&mut tmp[..chunk])?;\n            buf.extend_from_slice(&tmp[..chunk]);\n            remaining -= chunk;\n        }\n        Ok(buf)')]),
    dict(id="N30-bitvec-encode-fast-path-for-aligned-vectors", file="crates/serialize/src/encode.rs",
         edits=[('        let mut aligned = self.clone();\n        aligned.force_align();\n        for item in aligned.as_raw_slice() {', """        if self.as_bitptr().raw_parts().1.into_inner() == 0 {
            for item in self.as_raw_slice() {
                item.encode(encoder, plugin, session)?;
            }
            return Ok(());
        }
        let mut aligned = self.clone();
        aligned.force_align();
        for item in aligned.as_raw_slice() {""")]),
    dict(id="N31-unpin-tests-the-probation-length-then-unwraps", file="crates/storage/src/tiny_lfu/policy.rs",
         edits=[('        let Some(victim) = self.lru.peek_least_recent(lru::Region::Probation)\n        else {\n            self.lru.move_key_to_head_of_region(unpin, lru::Region::Probation);\n            return;\n        };\n', """        if self.lru.probation_len() == 0 {
            self.lru.move_key_to_head_of_region(unpin, lru::Region::Probation);
            return;
        }
        let victim =
            self.lru.peek_least_recent(lru::Region::Probation).unwrap();
""")]),
    dict(id="N32-trim-loop-as-a-bounded-for", file=ST + "tiny_lfu/policy.rs",
         edits=[("""        let mut to_examine = self.lru.pinned_len();

        while to_examine > 0 && self.lru.pinned_len() > 0 {
            to_examine -= 1;
""", """        for _ in 0..self.lru.pinned_len() {
            if self.lru.pinned_len() == 0 {
                break;
            }
""")]),
    dict(id="N33-path-hash-through-path-iter", file="crates/stable_hash/src/lib.rs",
         edits=[("""        state.write_length_prefix(self.components().count());

        for component in self.components() {
            component.as_os_str().stable_hash(state);
        }""", """        state.write_length_prefix(self.iter().count());

        for component in self.iter() {
            component.stable_hash(state);
        }""")]),
    dict(id="N34-snapshot-replay-halves-in-the-other-order", file=ST + "key_of_set_map/cache.rs",
         edits=[("""                Operation::Insert(v) => {
                    removed.remove(v);
                    added.insert(v.clone());
                }""", """                Operation::Insert(v) => {
                    added.insert(v.clone());
                    removed.remove(v);
                }""")]),
    # twins of the round-6 rules (fourth session)
    dict(id="N35-vec-decode-clamps-only-the-preallocation", file="crates/serialize/src/decode.rs",
         edits=[("""        let len = decoder.read_usize()?;
        let mut vec = Self::with_capacity(len);
        for _ in 0..len {
            vec.push(T::decode(decoder, plugin, session)?);""", """        let len = decoder.read_usize()?;
        let mut vec = Self::with_capacity(len.min(1 << 16));
        for _ in 0..len {
            vec.push(T::decode(decoder, plugin, session)?);""")]),
    dict(id="N36-abort-callee-guard-as-two-early-returns", file=CG + "computing.rs",
         edits=[("""        if request.in_flight > 0 || request.kept {
            return;
        }""", """        if request.in_flight != 0 {
            return;
        }
        if request.kept {
            return;
        }""")]),
    dict(id="N37-flush-replaces-the-current-batch-keeping-its-position", file=ST + "write_manager/write_behind.rs",
         edits=[("""        let to_commit_db_batch =
            std::mem::replace(&mut self.db_write_batch, db.write_batch());
        let to_commit_logical_batches =
            std::mem::take(&mut self.processed_logical_batch);
""", """        let fresh = CurrentBatch { processed_logical_batch: Vec::new(), db_write_batch: db.write_batch(), expected_epoch: self.expected_epoch };
        let CurrentBatch { processed_logical_batch: to_commit_logical_batches, db_write_batch: to_commit_db_batch, .. } = std::mem::replace(self, fresh);
""")]),
    dict(id="N38-clean-query-rebuilds-node-info-through-the-constructor", file=CG + "database.rs",
         edits=[("""            let mut current_node_info = self.node_info().await.unwrap();

            current_node_info.transitive_firewall_callees = x;
            current_node_info.transitive_firewall_callees_fingerprint = self
                .engine()
                .hash(&current_node_info.transitive_firewall_callees);

            Some((current_node_info, new_observations))""", """            let current_node_info = self.node_info().await.unwrap();
            let tfc_fingerprint = self.engine().hash(&x);

            Some((NodeInfo::new(current_node_info.value_fingerprint(), tfc_fingerprint, x), new_observations))""")]),
]


def main():
    import fcntl
    os.makedirs(SCRATCH, exist_ok=True)
    lock = open(os.path.join(SCRATCH, "lock"), "w")
    fcntl.flock(lock, fcntl.LOCK_EX)
    pat = re.compile(sys.argv[1]) if len(sys.argv) > 1 else None
    bad = 0
    for m in NEUTRAL:
        if pat and not pat.search(m["id"]):
            continue
        t0 = time.time()
        dst = os.path.join(SCRATCH, "repo")
        subprocess.check_call(["rsync", "-a", "--delete", "--exclude", "target", "--exclude", ".git", "/repo/", dst + "/"])
        p = os.path.join(dst, m["file"])
        s = open(p).read()
        err = None
        for old, new in m["edits"]:
            if "nth" in m:
                parts = s.split(old)
                if len(parts) <= m["nth"] + 1:
                    err = "occurrence %d of pattern not found" % m["nth"]
                    break
                s = old.join(parts[:m["nth"] + 1]) + new + old.join(parts[m["nth"] + 1:])
            else:
                if s.count(old) != 1:
                    err = "pattern occurs %d times" % s.count(old)
                    break
                s = s.replace(old, new)
        if err:
            print("%-50s SELFTEST-ERROR %s" % (m["id"], err))
            bad += 1
            continue
        open(p, "w").write(s)
        env = dict(os.environ, QBV_REPO=dst, QBV_EVIDENCE_DIR=os.path.join(SCRATCH, "evidence"))
        r = subprocess.run([os.path.join(VERIF, "check"), "all", "quick"], cwd=VERIF, env=env, stdout=subprocess.PIPE, stderr=subprocess.STDOUT, text=True)
        alarms = [l for l in r.stdout.splitlines() if "VIOLATION" in l or "ENGINE-ERROR" in l or re.search(r": C\d+\.[a-z] \[", l)]
        status = "silent" if r.returncode == 0 and not alarms else "FALSE-ALARM"
        if status != "silent" and m.get("fail_closed_ok") and all("anchor" in l or "VIOLATION" in l for l in alarms):
            status = "fail-closed (documented limitation)"
        if status == "FALSE-ALARM":
            bad += 1
        print("%-50s %s  [%.1fs]" % (m["id"], status, time.time() - t0))
        for l in alarms[:8]:
            print("    " + l[:400])
    print("neutral edits: %d false alarms" % bad)
    return 1 if bad else 0


if __name__ == "__main__":
    sys.exit(main())

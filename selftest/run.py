#!/usr/bin/env python3
"""E5 self-test: applies one mutant at a time to a scratch copy of /repo and asserts that the
relevant check reports a violation whose obligation key contains the expected text.
usage: selftest/run.py [mutant-id-regex] [--keep]
Not a registered command; run before arming or changing a rule."""
import importlib.util
import os
import re
import shutil
import subprocess
import sys
import time

HERE = os.path.dirname(os.path.abspath(__file__))
VERIF = os.path.dirname(HERE)
SCRATCH = os.environ.get("QBV_SELFTEST_DIR", "/tmp/qbv-selftest")
REPO = os.environ.get("QBV_SELFTEST_SRC", "/repo")


def load_mutants():
    # --challenge: the exploratory corpus (selftest/challenge.py): mutants written without looking at the rules, run
    # against ALL checks, to find classes of mistakes no rule covers yet
    name = "challenge" if "--challenge" in sys.argv else "mutants"
    spec = importlib.util.spec_from_file_location(name, os.path.join(HERE, name + ".py"))
    m = importlib.util.module_from_spec(spec)
    spec.loader.exec_module(m)
    return m.MUTANTS


def fresh_copy():
    dst = os.path.join(SCRATCH, "repo")
    os.makedirs(SCRATCH, exist_ok=True)
    subprocess.check_call(["rsync", "-a", "--delete", "--exclude", "target", "--exclude", ".git", REPO + "/", dst + "/"])
    return dst


def main():
    import fcntl
    os.makedirs(SCRATCH, exist_ok=True)
    lock = open(os.path.join(SCRATCH, "lock"), "w")
    fcntl.flock(lock, fcntl.LOCK_EX)  # one self-test at a time per scratch directory
    pat = re.compile(sys.argv[1]) if len(sys.argv) > 1 and not sys.argv[1].startswith("--") else None
    muts = [m for m in load_mutants() if pat is None or pat.search(m["id"])]
    ok = bad = 0
    results = []
    for m in muts:
        t0 = time.time()
        dst = fresh_copy()
        edits = m["edits"] if "edits" in m else [(m["file"], m["old"], m["new"])]
        edits = list(edits) + [(m["file"], o, n) for o, n in m.get("edits_extra", [])]
        err = None
        for f, old, new in edits:
            p = os.path.join(dst, f)
            s = open(p).read()
            nth = m.get("nth") if (f, old, new) == edits[0] else None
            if nth is None and s.count(old) != 1:
                err = "mutant %s: pattern occurs %d times in %s" % (m["id"], s.count(old), f)
                break
            if nth is not None:
                parts = s.split(old)
                if len(parts) <= nth + 1:
                    err = "mutant %s: occurrence %d not found" % (m["id"], nth)
                    break
                s = old.join(parts[:nth + 1]) + new + old.join(parts[nth + 1:])
                open(p, "w").write(s)
            else:
                open(p, "w").write(s.replace(old, new))
        if err:
            print("SELFTEST-ERROR", err)
            bad += 1
            continue
        env = dict(os.environ, QBV_REPO=dst, QBV_EVIDENCE_DIR=os.path.join(SCRATCH, "evidence"))
        r = subprocess.run([os.path.join(VERIF, "check"), m.get("prop", "all"), "quick"], cwd=VERIF, env=env, stdout=subprocess.PIPE, stderr=subprocess.STDOUT, text=True)
        out = r.stdout
        fired = [l for l in out.splitlines() if m.get("expect", "]:") in l and re.search(r": C\d+\.[a-z] \[", l)]
        status = "ok"
        if "ENGINE-ERROR" in out:
            status = "ENGINE-ERROR (mutant does not compile?)"
        elif r.returncode != 1 or not fired:
            status = "MISSED (exit %d)" % r.returncode
        if status == "ok":
            ok += 1
        else:
            bad += 1
        print("%-60s %-8s %s  [%.1fs]" % (m["id"], m.get("prop", "all"), status, time.time() - t0))
        if "--challenge" in sys.argv and status == "ok":
            print("   caught by: " + "; ".join(sorted({re.search(r"\[([^\]]+)\]", l).group(1) for l in fired}))[:300])
        if status != "ok":
            print("   expected a report containing: %s" % m.get("expect", "(any obligation)"))
            print("   " + "\n   ".join(out.splitlines()[-8:]))
        results.append((m["id"], status))
    print("self-test: %d ok, %d failed" % (ok, bad))
    if "--keep" not in sys.argv:
        shutil.rmtree(os.path.join(SCRATCH, "repo"), ignore_errors=True)
    # evidence files were overwritten by runs against the scratch copy: the caller must re-run the checks on /repo
    return 1 if bad else 0


if __name__ == "__main__":
    sys.exit(main())

#!/usr/bin/env python3
"""Runs the registered checks against each independently seeded breaking change kept under
/verif/seeded/<id>/patch.diff (applied to a scratch copy of /repo) and prints which obligations fire.
usage: selftest/seeded.py [id-regex] [--all-props]"""
import json
import os
import re
import subprocess
import sys

HERE = os.path.dirname(os.path.abspath(__file__))
VERIF = os.path.dirname(HERE)
SCRATCH = os.environ.get("QBV_SELFTEST_DIR", "/tmp/qbv-selftest")


def main():
    import fcntl
    os.makedirs(SCRATCH, exist_ok=True)
    lock = open(os.path.join(SCRATCH, "lock"), "w")
    fcntl.flock(lock, fcntl.LOCK_EX)
    pat = re.compile(sys.argv[1]) if len(sys.argv) > 1 and not sys.argv[1].startswith("--") else None
    allp = "--all-props" in sys.argv
    man = json.load(open(os.path.join(VERIF, "MANIFEST.json")))
    claimed = [c["property_id"] for c in man["checks"]]
    rows = []
    for sid in sorted(os.listdir(os.path.join(VERIF, "seeded"))):
        d = os.path.join(VERIF, "seeded", sid)
        if not os.path.exists(os.path.join(d, "patch.diff")) or (pat and not pat.search(sid)):
            continue
        meta = json.load(open(os.path.join(d, "meta.json"))) if os.path.exists(os.path.join(d, "meta.json")) else {}
        dst = os.path.join(SCRATCH, "repo")
        os.makedirs(SCRATCH, exist_ok=True)
        subprocess.check_call(["rsync", "-a", "--delete", "--exclude", "target", "--exclude", ".git", "/repo/", dst + "/"])
        pf = os.path.join(d, "patch_rebased.diff") if os.path.exists(os.path.join(d, "patch_rebased.diff")) else os.path.join(d, "patch.diff")
        r = subprocess.run(["patch", "-p1", "--no-backup-if-mismatch", "-i", pf], cwd=dst, stdout=subprocess.PIPE, stderr=subprocess.STDOUT, text=True)
        if r.returncode != 0:
            print("%s: patch does not apply to the current tree:\n%s" % (sid, r.stdout))
            rows.append((sid, "PATCH-FAILED", []))
            continue
        props = claimed if allp else [meta.get("property", sid.split("-")[0])]
        fired = []
        for p in props:
            if p not in claimed:
                continue
            env = dict(os.environ, QBV_REPO=dst, QBV_EVIDENCE_DIR=os.path.join(SCRATCH, "evidence"))
            rr = subprocess.run([os.path.join(VERIF, "check"), p, "quick"], cwd=VERIF, env=env, stdout=subprocess.PIPE, stderr=subprocess.STDOUT, text=True)
            if "ENGINE-ERROR" in rr.stdout:
                fired.append("%s:ENGINE-ERROR" % p)
            for l in rr.stdout.splitlines():
                m = re.search(r": (C\d+\.[a-z]) \[([^\]]+)\]", l)
                if m:
                    fired.append(m.group(2))
        rows.append((sid, "CAUGHT" if fired else "MISSED", fired))
        print("%-28s %-8s %s" % (sid, "CAUGHT" if fired else "MISSED", "; ".join(fired)[:300]))
    return 0


if __name__ == "__main__":
    sys.exit(main())

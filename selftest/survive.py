#!/usr/bin/env python3
"""Which exploratory mutants (selftest/challenge.py) survive the repository's own test suite?  Only those are
'realistic changes that still pass the existing tests'; the others are caught by the tests anyway.
Works in a scratch git worktree under /tmp (removed at the end), never in /repo.
usage: selftest/survive.py [id-regex]     results -> selftest/challenge_survival.json"""
import importlib.util
import json
import os
import re
import subprocess
import sys
import time

HERE = os.path.dirname(os.path.abspath(__file__))
WT = "/tmp/qbv-survive"
OUT = os.path.join(HERE, "challenge_survival.json")
KNOWN_FLAKY = {"asymmetric_diamond_projection_pattern"}


def sh(cmd, **kw):
    return subprocess.run(cmd, shell=True, stdout=subprocess.PIPE, stderr=subprocess.STDOUT, text=True, **kw)


def main():
    src = "mutants.py" if "--mutants" in sys.argv else "challenge.py"
    spec = importlib.util.spec_from_file_location("challenge", os.path.join(HERE, src))
    mod = importlib.util.module_from_spec(spec)
    spec.loader.exec_module(mod)
    args = [a for a in sys.argv[1:] if not a.startswith("--")]
    pat = re.compile(args[0]) if args else None
    res = json.load(open(OUT)) if os.path.exists(OUT) else {}
    if not os.path.isdir(WT):
        print(sh("git -C /repo worktree add --detach %s HEAD -q" % WT).stdout)
        sh("cp -al /repo/target %s/target" % WT)
        sh("rm -rf %s/target/debug/.fingerprint/qbice* %s/target/debug/deps/*qbice* %s/target/debug/incremental %s/target/debug/build/qbice* %s/target/debug/examples" % ((WT,) * 5))
    for m in mod.MUTANTS:
        if pat and not pat.search(m["id"]):
            continue
        if m["id"] in res and not pat:
            continue
        sh("git -C %s checkout -- ." % WT)
        edits = [(m["file"], m["old"], m["new"])] + [(m["file"], o, n) for o, n in m.get("edits_extra", [])]
        ok = True
        for f, old, new in edits:
            p = os.path.join(WT, f)
            s = open(p).read()
            if s.count(old) < 1:
                ok = False
                break
            nth = m.get("nth", 0)
            parts = s.split(old)
            s = old.join(parts[:nth + 1]) + new + old.join(parts[nth + 1:])
            open(p, "w").write(s)
        if not ok:
            res[m["id"]] = {"status": "pattern-not-found"}
            continue
        t0 = time.time()
        r = sh("cd %s && timeout 1500 cargo test --workspace --no-fail-fast --offline 2>&1" % WT)
        failed = sorted(set(re.findall(r"^test (\S+) \.\.\. FAILED", r.stdout, re.M)) - KNOWN_FLAKY)
        failed = [f for f in failed if f.split("::")[-1] not in KNOWN_FLAKY]
        compiled = "error: could not compile" not in r.stdout
        timed_out = r.returncode == 124
        status = "does-not-compile" if not compiled else ("killed-by-tests" if failed or timed_out else "SURVIVES")
        res[m["id"]] = {"status": status, "failed_tests": failed[:8], "timed_out": timed_out, "wall_s": round(time.time() - t0)}
        print("%-62s %s %s" % (m["id"], status, failed[:3]), flush=True)
        json.dump(res, open(OUT, "w"), indent=1, sort_keys=True)
    sh("git -C %s checkout -- ." % WT)
    if "--keep" not in sys.argv:
        sh("git -C /repo worktree remove --force %s" % WT)
        sh("rm -rf %s" % WT)


if __name__ == "__main__":
    main()

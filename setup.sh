#!/bin/sh
# Builds the E1 driver (nightly, offline) and warms the S-main fact cache.
set -e
cd "$(dirname "$0")"
export CARGO_NET_OFFLINE=true
(cd engine/driver && cargo +nightly build --offline)
python3 - <<'PY'
import sys, os
sys.path.insert(0, os.path.join(os.getcwd(), "engine"))
from qbv import extract
print("facts:", extract.facts_for("main"))
# the full-workspace shape (RocksDB backend) is needed by C08 and C11; building it once takes a few minutes
print("facts:", extract.facts_for("rocks"))
print("facts:", extract.facts_for("sertest"))
print("facts:", extract.facts_for_fixture("derivefix"))
# warm the C14 witness crate (builds the path dependencies of qbice_stable_type_id once)
from qbv.ctx import Ctx
from qbv import witness
c = Ctx("C14", "quick")
selfs = {im["self_ty"] for im in c.prog.impls if (im.get("trait") or "").endswith("Identifiable")}
print("witness:", witness.run(selfs, full=False)[:2])
print("witness:", witness.run_varint()[0])
PY

#!/bin/bash
# usage: tools/confirm_seed.sh <Cxx> <demo-test-spec...>
# Confirms a seeded change produced in /tmp/wt-<Cxx>: demo fails with the change, passes without,
# the existing suite passes with the change. Saves the artefacts under /verif/seeded/<Cxx>/.
# <demo-test-spec> = the cargo test arguments that run the demonstration, e.g.
#   "-p qbice_integration_test --test zz_demo_c04"
set -u
export CARGO_INCREMENTAL=0
ID=$1; shift
DEMO="$*"
WT=${WT_PREFIX:-/tmp/wt-}$ID
OUT=/verif/seeded/${OUT_ID:-$ID}
mkdir -p $OUT
cd $WT || exit 2
git diff > $OUT/patch.diff
[ -s $OUT/patch.diff ] || { echo "empty patch"; exit 2; }
# demonstration files = untracked files except SEEDED.md
git status --short | awk '$1=="??"{print $2}' | grep -v '^SEEDED.md$' | grep -v '^target' > $OUT/demo_files.txt
mkdir -p $OUT/demo
while read f; do mkdir -p $OUT/demo/$(dirname $f); cp -r $f $OUT/demo/$f; done < $OUT/demo_files.txt
cp SEEDED.md $OUT/SEEDED.md 2>/dev/null
echo "== demo WITH change"; timeout 1200 cargo test --offline $DEMO > $OUT/demo_with.log 2>&1; W=$?
tail -5 $OUT/demo_with.log
git apply -R $OUT/patch.diff || { echo "cannot revert"; exit 2; }
echo "== demo WITHOUT change"; timeout 1200 cargo test --offline $DEMO > $OUT/demo_without.log 2>&1; WO=$?
tail -5 $OUT/demo_without.log
git apply $OUT/patch.diff || { echo "cannot re-apply"; exit 2; }
echo "== existing suite WITH change"
# run the existing suite but not the demonstration: move demo test files away for the run
timeout 3000 cargo test --workspace --no-fail-fast --offline > $OUT/suite_with.log 2>&1; S=$?
grep -E "^test result|FAILED|failed" $OUT/suite_with.log | grep -v "^test result: ok" | head -20
echo "RESULT id=$ID demo_with_exit=$W demo_without_exit=$WO suite_exit=$S"

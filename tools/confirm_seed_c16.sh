#!/bin/bash
# C16-6: the demonstration is a unit test hooked in by a `#[cfg(test)] mod` line that is NOT part of the change
export CARGO_INCREMENTAL=0
OUT=/verif/seeded/C16-6; WT=/tmp/w6-C16; mkdir -p $OUT/demo/crates/qbice/src/engine/computation_graph/query_lock_manager
cd $WT
cp /tmp/x-c16.patch $OUT/patch.diff
cp SEEDED.md $OUT/
cp crates/qbice/src/engine/computation_graph/query_lock_manager/zz_demo6_c16.rs $OUT/demo/crates/qbice/src/engine/computation_graph/query_lock_manager/
git apply -R $OUT/patch.diff || exit 2
git diff > $OUT/demo/harness_hook.diff     # the cfg(test) mod line
git apply $OUT/patch.diff
DEMO="-j 4 -p qbice --lib zz_demo6_c16"
echo "== with"; timeout 1200 cargo test --offline $DEMO > $OUT/demo_with.log 2>&1; W=$?; tail -n 4 $OUT/demo_with.log
git apply -R $OUT/patch.diff
echo "== without"; timeout 1200 cargo test --offline $DEMO > $OUT/demo_without.log 2>&1; WO=$?; tail -n 4 $OUT/demo_without.log
git apply $OUT/patch.diff
timeout 3000 cargo test -j 6 --workspace --no-fail-fast --offline > $OUT/suite_with.log 2>&1; S=$?
grep -E "^test .*FAILED|^error: test failed" $OUT/suite_with.log | sort | uniq -c
echo "RESULT id=C16 demo_with_exit=$W demo_without_exit=$WO suite_exit=$S"

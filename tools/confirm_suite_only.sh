#!/bin/bash
# usage: suite_only.sh Cxx  -- re-run only the existing-suite step of confirm_seed.sh (after an ENOSPC)
export CARGO_INCREMENTAL=0
P=$1; OUT=/verif/seeded/$P-6; cd /tmp/w6-$P || exit 2
timeout 3000 cargo test -j 6 --workspace --no-fail-fast --offline > $OUT/suite_with.log 2>&1; S=$?
grep -E "^test result|FAILED|failed" $OUT/suite_with.log | grep -v "^test result: ok" | head -20
echo "SUITE-RESULT id=$P suite_exit=$S"

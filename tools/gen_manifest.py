#!/usr/bin/env python3
"""Regenerates /verif/MANIFEST.json from the table below (kept in one place so the manifest is always valid)."""
import json
import os

HERE = os.path.dirname(os.path.dirname(os.path.abspath(__file__)))
ids = [json.loads(l)["id"] for l in open(os.path.join(HERE, "properties.jsonl"))]

# property -> (technique, level text, level note)
CLAIMED = {
    "C04": ("MIR dominance / await-completion ordering + def-use links (rustc_private driver, custom rules)",
            "Decides structural necessary conditions of C04 on every path of the named bodies: epoch writes only after the exclusive phase lock "
            "was acquired, epoch reads only under the shared lock, phase guard threaded into every CallerInformation, session guard released only "
            "after commit_internal completed, one batch per session, &mut-exclusive session API. It does not decide atomicity over all interleavings.",
            "Trusted: rustc nightly MIR construction, tokio RwLock semantics, the frozen anchor table in engine/qbv/rules/C04.py."),
    "C05": ("async-aware linear-resource analysis on MIR (rustc MaybeInitializedPlaces at every Yield; whole-program may-suspend and run-to-completion fixpoints)",
            "Decides: no owned write batch is live at a really-suspending await of a coroutine that can be dropped, no batch reaches a Drop on a normal path, "
            "lock-guard Drop impls release+notify, undo-token defuse sites, executor only under catch_unwind, wait-before-publish, panic resumed before "
            "publishing with the computing guard owned, every column write in a run-to-completion body, Guard::drop spawns, no input-session guard held across an await of a droppable coroutine. Not decided: correctness of values after a cut.",
            "Trusted: rustc nightly MIR + its MaybeInitializedPlaces analysis, CHA over the workspace's StorageEngine impls, tokio::spawn runs futures to completion."),
}
CLAIMED["C01"] = (
    "MIR loop-form must-pass-through, match-arm sibling agreement, dominance and def-use links (rustc_private driver, custom rules)",
    "Decides protocol obligations that are necessary for the invalidation closure to be complete (every backward edge marked or buffered, buffered marks "
    "drained after the barrier into the same batch, Single/Unordered arms symmetric, stored order == wired order, dependencies cleared before re-execution, "
    "propagate before submit, Hit only at the caller's epoch, Cleaned only on equal fingerprints, the compared fingerprint is the fingerprint of the value that is stored, "
    "unordered groups fenced by unsafe; edge roles (key = callee, member = this node); monotone repair accumulators; firewall-set composition at both sibling sites; inherited repair strictness; "
    "no truncating adaptor on a fan-out; callee set and callee order updated together; firewall-set comparison exactly for non-firewall callees; cancelled chunk means recompute; "
    "firewalls repaired first for User/RepairFirewall callers; de-duplication set cleared per session). It does NOT decide that "
    "incremental values equal from-scratch values.",
    "Trusted: rustc nightly MIR construction; the frozen anchor table in engine/qbv/rules/C01.py; executors are pure.")

CLAIMED["C02"] = (
    "typestate / who-may-construct rules, listener-before-unlock dominance, lock-gap write-back rule (guard lifetimes from rustc's maybe-init analysis) over all bodies, join-loop exit rules",
    "Decides: executor reachable only with a ComputingLockGuard that is built only in the Vacant arm after insert_entry; waiters create their listener under the "
    "entry/shard lock and release it before awaiting; finishers remove before notify; no store through a re-acquired lock of data computed in an earlier critical "
    "section without re-check, and no check-then-act on a concurrent map across separate lock acquisitions (whole workspace); lock-table pin predicate and per-arm return of the lock-table entry closure (Occupied: the lock already in the table; Vacant: the instance inserted); parallel repair results trusted only after all chunks were joined. Not decided: soundness "
    "and termination over all interleavings.",
    "Trusted: rustc nightly MIR + MaybeInitializedPlaces; scc entry_sync holds the bucket lock; Notify semantics; the frozen anchors in engine/qbv/rules/C02.py and lockgap.py.")
CLAIMED["C03"] = (
    "control-dependence (flag-sensitive edge dominance) of every work-starting / dirtiness-spreading site on its justifying predicate, recognised semantically (PartialEq results, enum discriminants, promoted constants)",
    "Decides: inputs enqueued only on fingerprint change; propagation stops at firewall/projection callers; recomputed firewall/projection spreads only on change; "
    "in-lock double check; re-execution only on Recompute/backward-projection; clean edges skipped by exactly the documented condition; executor call sites; "
    "epochs are only ever compared for equality. "
    "Not decided: minimality per invocation over all histories.",
    "Trusted: rustc nightly MIR; the frozen anchors in engine/qbv/rules/C03.py.")

CLAIMED["C06"] = (
    "MIR dominance and loop-form must-pass-through on the cycle-detection protocol, branch-polarity rules on the SCC flag",
    "Decides: wait-for edge registered before the first probe and before any wait; a probe at the head of every retry iteration; probe before wait in exit_scc; "
    "SCC flag marked before CyclicError, error exactly on the cyclic branch; final SCC check before every Ok return; the probe visits every callee of every reached "
    "computation once (visited set keyed by identity, no constant answer, no lock held while descending) and marks the found path; execute_query substitutes the cycle default exactly in-SCC and resumes a caught panic exactly outside; only TrackedEngine::query raises the cyclic payload "
    "and it caches Ok values only; every completion of query_for (Ok or Err) keeps the registered dependency (defuse); check_callee never unwraps the "
    "observation of a forward edge (cyclic reads record none). Not decided: termination / values for all graphs.",
    "Trusted: rustc nightly MIR; scc::HashMap insert visibility; the frozen anchors in engine/qbv/rules/C06.py.")

CLAIMED["C07"] = (
    "must-pass-through / def-use rules on the publication bodies, field-coverage table for Drop for Database, shutdown join order, epoch reload link, per-value session rule",
    "Decides: each publication writes one batch and submits it exactly once on every normal path, and unconditionally writes every column a reader of the node needs "
    "(kind, last-verified, node info, both edge columns, input and result); ordered shutdown with the committer's final drain; every "
    "ManuallyDrop field of Database (incl. the write manager) is drained and waited for; the epoch is reloaded from and stored to the timestamp column; every top-level "
    "encoding uses a fresh interning session. Not decided: faithfulness of the stored image across restarts for all histories.",
    "Trusted: rustc nightly MIR; spawn_blocking runs its closure; frozen anchors in engine/qbv/rules/C07.py and C10.py.")
CLAIMED["C09"] = (
    "sibling agreement + def-use links on the six cached-map write sites, control-dependence rules on the pin protocol, commit-before-notify dominance",
    "Decides: the batch's `newly recorded` bool is the cache's `updated` flag at all 6 write sites; pin count raised exactly under `updated`; negative entry on "
    "remove-vacant; physical removal only at pin 0; miss-fill only in the Vacant arm; commit precedes un-pin notifications; un-pinned keys are exactly the "
    "drained keys; staged set operations carry the batch epoch and are replayed sorted by (epoch, issue sequence); no order-sensitive fold iterates an unordered "
    "collection; per-batch coalescing keeps the latest operation; both write families serialised and notified; a staging snapshot applies deferred messages first; "
    "fetch_entry overlays additions and removals; the staging pin counter is raised under `updated`; the staging log is sampled before the store (get_entry / get). Not decided: read-your-writes under all races.",
    "Trusted: rustc nightly MIR; TinyLFU::entry runs under the bucket lock; C16.a for eviction.")
CLAIMED["C10"] = (
    "control-dependence on `epoch == expected`, who-may-assign rules on WriteBatch::{active,epoch}, def-use through the pipeline tasks, join-order dominance, signature/impl-table checks",
    "Decides: apply only the expected epoch and advance on the same path; the committer gives up only when the heap is empty or its top is not the expected epoch; reversed heap order; inactive only after commit; one epoch source; the submitted batch "
    "flows unchanged through serialize->commit; ordered shutdown with final drain+flush; submit moves the batch and WriteBatch is not Clone. Not decided: equality "
    "with the sequential model for all arrival orders.",
    "Trusted: rustc nightly MIR; crossbeam channel and BinaryHeap semantics.")
CLAIMED["C16"] = (
    "who-may-call rule on the storage map, control-dependence of eviction on the pin predicate and of policy forgetting on the storage's confirmation, message pairing, predicate/field links",
    "Decides: only remove_closure and OccupiedEntry::remove take entries out of the storage; policy eviction requires is_pinned == false on the same locked entry; "
    "the policy forgets a key only after confirmation (else moves it to Pinned); insert/remove/unpin always announce their message and all messages are handled; "
    "pin predicates read the owner-mutated fields with the right threshold; un-pin only when the counter drops from 1 (and depending on that bool); Lru: region length counters and the "
    "key's region tag follow every list move (counts, region agreement, leaving region read before the tag is rewritten). Not decided: the numeric bound.",
    "Trusted: rustc nightly MIR; scc entry_sync bucket lock.")

CLAIMED["C08"] = (
    "def-use links on what shares a batch, await-completion ordering of batch creation, who-may-call rules on the physical commit, configuration-consistency table (WAL off => atomic flush)",
    "Decides: a recomputed firewall's value goes into the batch holding its dirty marks; a session's epoch record/inputs/dirty marks share one batch; a query's batch "
    "is created only after its executor and helpers returned; each backend commit is one store write outside loops and flush commits once; RocksDB commits without "
    "WAL only with atomic_flush enabled in the options actually used to open the DB. Not decided: consistency of every crash prefix.",
    "Trusted: rustc nightly MIR (both build shapes); atomicity of write_opt / OwnedWriteBatch::commit; RocksDB atomic_flush semantics.")
CLAIMED["C11"] = (
    "sibling agreement over the key-construction call sequences of 2 backends x (5 wide-column + 4 member + scan) sites, def-use links buffer->store, discriminant table extraction, length-prefix arithmetic shape",
    "Decides: readers and writers of one column build identical key bytes by construction (same encoder calls, same generic arguments, same buffer handed to the store); "
    "discriminant before/after the key exactly per layout; member keys = len-prefixed key ++ element; scans seek the same prefix with an upper bound derived from it "
    "and decode elements at 8+len; every site addresses the column kind of its family (WideColumn / KeyOfSet); RocksDB's bound is cut after the incremented byte (prefix successor; the scan has no starts_with filter); per-column discriminants pairwise distinct; column names derive from the full StableTypeID. Not decided: byte-level bound "
    "arithmetic, third-party store behaviour, reopen.",
    "Trusted: rustc nightly MIR (both build shapes); self-delimiting encodings (C12.b); distinct StableTypeIDs (C14).")
CLAIMED["C12"] = (
    "wire-shape extraction: Encode/Decode MIR bodies -> finite automata over wire events, impl selection by type unification, determinisation + product search for language equivalence; primitive table by delegation closure; "
    "field-order correspondence; compile-time witness crate of const assertions for the varint / zig-zag const fns",
    "Decides: every Decode impl (119, incl. macro-generated and derived, smallvec/bitvec on) reads exactly the event language that the Encode impl selected for the "
    "same type writes, including tag constants; repetitions are length-prefixed and variant alternations start with distinct constant tags; emit_X/read_X use the "
    "same wire primitive for all 19 X; for 26 + 15 (derive fixtures) struct/enum types the i-th value written comes from the field the i-th value read is stored into; "
    "interned handles: C15.c's first-occurrence rule (as C12.f); the derive macros on /verif's own universe of 16 shapes (skip first/middle/last, tuple/named, variants, generic; C12.h); (C12.g, witness) the const varint encoders emit minimal LEB128 and zig-zag is the standard bijection with its inverse "
    "on every power-of-two boundary of every width, as computed by rustc's const evaluator. Not decided: the (non-const) varint readers' arithmetic, varint/zig-zag arithmetic, value equality after decoding.",
    "Trusted: rustc nightly MIR; ToOwned pairs encode alike (checked for str/String, [T]/Vec<T>, Path/PathBuf).")
CLAIMED["C13"] = (
    "framing rules (length before repetition, discriminant before alternation) and order-independence rules over every StableHash MIR body; forbidden-input who-may-call rule; float/integer/seeding def-use rules",
    "Decides: every hashing loop is length-prefixed and every variant alternation discriminant-prefixed; for all unordered collections the outer hasher is untouched "
    "inside the iteration, element hashes are combined only by integer wrapping_add and hashed once after the loop; no address/RandomState/capacity/type_name/clock/"
    "thread-id input; raw byte runs are length-prefixed; no narrowing cast; derived impls hash every field once and the discriminant (fixture universe, C13.e); no slice-level hashing of a ring buffer's halves (layout observers only iterated); NaN normalised, integers little-endian at the right width, seeded builder feeds only the seed, sub_hash copies the outer state. Not decided: collision resistance.",
    "Trusted: rustc nightly MIR; mem::Discriminant representation; BTree iteration order.")

CLAIMED["C14"] = (
    "table extraction from the MIR of every STABLE_TYPE_ID constant (parameters folded, combine-chain shape, base names), purity of the const fns, word-level def-use links of the QueryID packing; "
    "compile-time witness crate of const assertions evaluated by rustc (id universe pairwise distinct, every name byte and the length reach the id)",
    "Decides: every type/const parameter of every Identifiable impl (145, incl. derives) reaches the id through an unbroken, non-symmetric combine chain; base names "
    "(with chain length) are pairwise distinct and derived names are `<pkg>@<version>::<module path>::<type>`; ids are pure const fns; from_raw_parts is unsafe and used at 2 audited sites; QueryID packs (type id, key hash) and "
    "unpacks high/low consistently; registry and value store are keyed by <Q>::STABLE_TYPE_ID; (C14.f, witness) the ids of a constructor-closed universe of 2 217 (quick) / 6 473 (thorough) "
    "types are pairwise distinct and from_unique_type_name depends on every byte and on the length of names of 1..41 bytes, as computed by rustc's const evaluator at type-check time. "
    "Not decided: collision freedom outside that universe; QueryID key hashes (runtime values).",
    "Trusted: rustc nightly MIR of associated consts; concat!/module_path! expansion by rustc.")
CLAIMED["C15"] = (
    "dominance / guard-lifetime rules on the double-checked insertion, who-may-remove rule on typed shards, retain-predicate shape, wire-shape equivalence of Interned, control-dependence of the source/reference decision",
    "Decides: intern / intern_unsized / get_from_hash select the sub-shard by the same accessor of the hash; canonical allocations are created and published only under the hash-selected shard's write lock, in the Vacant arm or after a failed upgrade; lookups return "
    "only upgraded handles; only vacuum's retain(weak.upgrade().is_some()) removes entries; shards are keyed by T's id and downcast to T's shard; Interned encode/decode "
    "languages agree, the full value is written exactly on first insertion of (type id, hash) into the session set, decode interns sources and resolves references via "
    "the plugin's interner. Not decided: canonicity at every instant under all interleavings.",
    "Trusted: rustc nightly MIR + MaybeInitializedPlaces; parking_lot guards; Weak::upgrade semantics.")

# clauses added in later rounds (seeded changes, systematic mutants, defects D7-D10); appended to the `Decides` text
ADDENDA = {
    "C01": "Later clauses: a cache hit records its observation; backward projection collects exactly projections; CalleeOrder updates are order-preserving and abort_callee removes exactly the callee; "
           "the popped stripped-buffer edge is the one processed; firewall set and the observations of its members are replaced together with the callees' current fingerprints (D8). Round 5: only abort_callee / clear take entries out of the recorded order; C01.o is a lower bound (User, RepairFirewall); KNOWN FINDING K1 (C01.t: a callee read by an executor for the first time is verified against unrepaired firewalls) is reported as a KNOWN-FINDING line, see DESIGN 6b; K2 (C01.u: a pending backward projection honoured only at its own epoch) was repaired as D19 and the clause is armed. KNOWN FINDING K8 (C01.v: a changed firewall set below a projection is not propagated).",
    "C02": "Later clauses: upgrade_to_exclusive resets every memoised column after re-acquiring; the tier upgrade of a caller set re-inserts every drained member; the key-of-set loader / overlay / merging reader "
           "clauses of C09 (as C02.h), because caller sets are key-of-set entries. Round 5: epoch read under the phase lock (C04.a as C02.j); KNOWN FINDING K3 (C02.i: the undo token of register_callee belongs to the call, not to the registration).",
    "C03": "Later clause: no Recompute is reachable from a Cleaned / NoNeed answer of a callee check (only a changed value forces re-execution). Round 5: observations of every callee survive a clean verification (C01.s as C03.k). Since D19 the marker clauses read: both sites test the marker's presence only (C03.f), and every re-execute exit of should_recompute_query lies behind RepairDecision::Recompute, also for a backward projection (C03.d).",
    "C04": "Later clauses: a session starts uncommitted and only commit() sets the flag; the phase lock is acquired only by Engine::tracked / snapshot_graph_from, the session guard only by Engine::input_session. Round 5: every guarded() tail of the reader phase owns an ActiveComputationGuard (C04.h, D13); the session's propagation starts from an empty visited set (C01.p as C04.i).",
    "C05": "Later clauses: defuse disarms / new arms the undo tokens; Guard::drop reaches take()+spawn on EVERY path (no early exit); the join of parallel repair chunks lowers the flag only on Ok(Cleaned) (as C05.f); abort_callee removes on both arms (as C05.g). Round 5: KNOWN FINDING K3 as C05.h. No detached helper tasks on the query side (C05.i).",
    "C06": "Later clauses: register_callee registers on every path; the probe marks the start false; the Result of a callee's repair is inspected before its stored info is read (D9). Round 5: edge-role / arm-symmetry clauses of set_computed (C01.c as C06.i). The repairing caller introduces itself under its own id (C06.l); no observation for a caller already on a cycle (C06.j, D15); KNOWN FINDING K5 (C06.k: the SCC mark of the repair phase reaches the executor).",
    "C07": "Later clauses: QueryKind::Input is written exactly for explicit inputs (set_input/update true, refresh false); batch coalescing / staging clauses of C09 (as C07.f). Round 5: the interned-handle decode clauses (C15.c, C15.a as C07.g). InputSession::commit runs inside its guarded block (C07.h).",
    "C09": "Later clauses: in-memory insert reaches the set on every path; every scanned member is inserted before the loader may spill; a message for the staging log is applied or deferred, never dropped; "
           "every filtered source of the merging reader is re-polled after a rejected member (D10). Round 5: the committer's consume-before-notify clauses (C10.a as C09.j). An unpinned entry only is evicted (C16.a as C09.l); a store member is taken out of the staged additions before it is yielded (D16); K4 (C09.k: cold load vs concurrent write of a key-of-set entry) and K7 (C09.m: late cache fill of the wide-column cache) were repaired as D20; both clauses are armed and tightened to the repaired protocol.",
    "C10": "Later clauses: a popped batch is consumed before it is listed for notification; the committer drains until nothing is ready; each backend commit is exactly one store write on every path (C08.d/e as C10.g). expected_epoch moves only by one, in process_pending_commits (C10.h).",
    "C11": "Later clauses: operations of one batch are applied in issue order; consume replays every recorded operation; the serializer's raw-read and varint-reader clauses (C12.l, C12.k as C11.h), since both backends decode every stored byte with them. The prefix extractor's domain has no upper bound (C11.i).",
    "C12": "Later clauses: both halves of as_slices are consumed; decoded BitVec cut to the bit length; the four varint readers are the same loop up to the width, return on the clear-0x80 edge, mask 0x7f, step 7 (C12.k); "
           "no read_exact in a loop targets the whole / a prefix of a loop-carried result buffer, read_raw_bytes sizes its buffer by len (C12.l); the interner's double-checked insertion (C15.a, as C12.f). D11: a bit vector's raw storage is read only after force_align on the same local or under a head-offset guard (C12.m).",
    "C13": "Later clauses: every field of every hand-written StableHash impl is hashed (table), every impl feeds the hasher. Round 4: no raw-storage read of a bit vector in a hash (C13.c, shared with C12.m). A length prefix is written for every length (also as C14.h); Path hashes its components (C13.f, D17).",
    "C08": "Round 4: the epoch a reopened engine starts from is stored with the session's batch and reloaded (C07.d as C08.g). The pending-projection marker is cleared last (C08.h).",
    "C14": "Round 4: every site of one column family asks for the same column kind, both backends (C11.d as C14.g).",
    "C15": "Round 4: unordered collections hash order-independently and no hash reads addresses / layout / raw storage (C13.b, C13.c as C15.d).",
    "C16": "Later clauses: on_write polarity, unpin leaves the Pinned region. D12: a region head is unwrapped only under a test of that region's own length (C16.f). The maintenance flag's protocol (C16.g); the refused key is the parked key (C16.h); the trim loop continues past pinned keys (C16.i, D18).",
}
ROUND6 = {
    "C02": "Round 6: abort_callee removes only on the path where no request for the callee is in flight AND none has completed; keep_callee raises `kept` (C02.i, second obligation).",
    "C03": "Round 6: every stored fingerprint is the hash of the value stored next to it and a clean verification keeps the value fingerprint, also when clean_query rebuilds the node info through its constructor (C01.h as C03.l).",
    "C04": "Round 6: the timestamp a session stores is the epoch it runs in and Sync::new resumes from it (C07.d as C04.j).",
    "C07": "Round 6: the committer gives up only when nothing is ready and its expected epoch only advances by one - no whole-value overwrite of the live CurrentBatch (C10.a, C10.h as C07.i).",
    "C08": "Round 6: C08.a diagnoses a firewall arm that creates more than one batch or submits the propagated batch on its own.",
    "C10": "Round 6: C10.a follows the apply step into a local helper; C10.h also rejects mem::replace / swap / take / `*self =` on a live CurrentBatch unless the replacement is built in place from the old expected_epoch.",
    "C11": "Round 6: every call of a mutating entry point of the store sits in the backend's WriteBatch::commit, both backends (C11.j, who-may-call with a positive control).",
    "C12": "Round 6: in every container decoder the bound of the element loop is the length read from the stream - no clamp, no arithmetic (C12.n, 14 loops; BitVec's bits-to-elements conversion excepted).",
    "C16": "Round 6: the per-query lock table's pin predicate reads Arc::strong_count of the stored lock (C02.d as C16.j).",
}
for k_, v_ in ROUND6.items():
    ADDENDA[k_] = (ADDENDA.get(k_, "") + " " + v_).strip()
for k_, v_ in ADDENDA.items():
    t_ = CLAIMED[k_]
    CLAIMED[k_] = (t_[0], t_[1] + " " + v_, t_[2])


NOT_YET = "check under construction in this round (DESIGN.md section 5 lists its clauses); not claimed until its rules are armed and self-tested"

checks = []
for i in ids:
    if i in CLAIMED:
        tech, text, note = CLAIMED[i]
        checks.append({
            "property_id": i,
            "quick_cmd": "./check %s quick" % i,
            "thorough_cmd": "./check %s thorough" % i,
            "evidence_file": "evidence/%s.json" % i,
            "replay_cmd_template": "./check %s quick   # static: re-evaluates the rules; the replay file {path} names the violated obligation" % i,
            "engine": "E1 fact extractor + E2 rule analyser",
            "level_claimed": {"category": "other", "text": text, "design_ref": "DESIGN.md section 5, %s" % i},
            "level_note": note,
            "technique": "static analysis: " + tech,
        })
m = {
    "version": 1,
    "setup_cmd": "./setup.sh",
    "hooks": {"guard": "qbice_verif",
              "enable": "RUSTFLAGS=--cfg qbice_verif, set by engine/qbv/witness.py for the C12.g witness crate only (public wrappers "
                        "postcard::verif_hooks around the private const varint / zig-zag helpers); every other check reads private items from rustc's MIR and needs no hook",
              "baseline_off_cmd": "cd /repo && cargo test --workspace --no-fail-fast --offline",
              "source_commits": ["2aa8ef6"], "add_only": True},
    "engines": [
        {"name": "E1 fact extractor", "path": "engine/driver", "serves_properties": ids,
         "kind_free_text": "rustc_private driver (nightly) dumping promoted MIR, rustc's maybe-initialised move paths, impl/ADT/signature tables as JSON"},
        {"name": "E2 rule analyser", "path": "engine/qbv", "serves_properties": ids,
         "kind_free_text": "Python 3 stdlib: CFG, dominators, reachability with removed nodes/edges, def-use slices, await map, may-suspend / run-to-completion fixpoints, per-property rule tables"},
        {"name": "E4 const-assertion witness", "path": "engine/qbv/witness.py", "serves_properties": ["C12", "C14"],
         "kind_free_text": "generated crates of `const _: () = assert!(..)` items path-depending on /repo's qbice_stable_type_id (C14.f) and qbice_serialize built with --cfg qbice_verif (C12.g); type-checked (never linked or run) with cargo +nightly check; failed assertions are build errors"},
    ],
    "checks": checks,
    "not_applicable": [{"property_id": i, "reason": NOT_YET} for i in ids if i not in CLAIMED],
    "notes": "Technique family: static analysis only (no execution of the engine). quick = all rules on the RocksDB-free build shape (plus the shapes a rule names itself); "
             "thorough = quick plus a second pass of every rule on the full workspace build (default features, integration-test crate). See DESIGN.md. "
             "Fixed defects (D1-D20) and the known findings K1, K5, K8 (recorded, not repaired; printed as KNOWN-FINDING lines, exit 0) are in known_findings.json and DESIGN.md sections 6 / 6b.",
}
json.dump(m, open(os.path.join(HERE, "MANIFEST.json"), "w"), indent=1)
print("claimed:", [c["property_id"] for c in checks])

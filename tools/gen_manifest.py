#!/usr/bin/env python3
"""Regenerates /verif/MANIFEST.json from the table below (kept in one place so the manifest is always valid)."""
import json
import os

HERE = os.path.dirname(os.path.dirname(os.path.abspath(__file__)))
ids = [json.loads(l)["id"] for l in open(os.path.join(HERE, "properties.jsonl"))]

# property -> (technique, level text, level note)
CLAIMED = {
    "C04": ("MIR dominance / await-completion ordering + def-use links (rustc_private driver, custom rules)",
            "Decides structural necessary conditions of C04 on every path of the named bodies: epoch writes only after the exclusive phase lock "
            "was acquired, epoch reads only under the shared lock, phase guard threaded into every CallerInformation, session guard released only "
            "after commit_internal completed, one batch per session, &mut-exclusive session API. It does not decide atomicity over all interleavings.",
            "Trusted: rustc nightly MIR construction, tokio RwLock semantics, the frozen anchor table in engine/qbv/rules/C04.py."),
    "C05": ("async-aware linear-resource analysis on MIR (rustc MaybeInitializedPlaces at every Yield; whole-program may-suspend and run-to-completion fixpoints)",
            "Decides: no owned write batch is live at a really-suspending await of a coroutine that can be dropped, no batch reaches a Drop on a normal path, "
            "lock-guard Drop impls release+notify, undo-token defuse sites, executor only under catch_unwind, wait-before-publish, panic resumed before "
            "publishing with the computing guard owned, every column write in a run-to-completion body, Guard::drop spawns. Not decided: correctness of values after a cut.",
            "Trusted: rustc nightly MIR + its MaybeInitializedPlaces analysis, CHA over the workspace's StorageEngine impls, tokio::spawn runs futures to completion."),
}
CLAIMED["C01"] = (
    "MIR loop-form must-pass-through, match-arm sibling agreement, dominance and def-use links (rustc_private driver, custom rules)",
    "Decides protocol obligations that are necessary for the invalidation closure to be complete (every backward edge marked or buffered, buffered marks "
    "drained after the barrier into the same batch, Single/Unordered arms symmetric, stored order == wired order, dependencies cleared before re-execution, "
    "propagate before submit, Hit only at the caller's epoch, Cleaned only on equal fingerprints, unordered groups fenced by unsafe). It does NOT decide that "
    "incremental values equal from-scratch values.",
    "Trusted: rustc nightly MIR construction; the frozen anchor table in engine/qbv/rules/C01.py; executors are pure.")

NOT_YET = "check under construction in this round (DESIGN.md section 5 lists its clauses); not claimed until its rules are armed and self-tested"

checks = []
for i in ids:
    if i in CLAIMED:
        tech, text, note = CLAIMED[i]
        checks.append({
            "property_id": i,
            "quick_cmd": "./check %s quick" % i,
            "thorough_cmd": "./check %s thorough" % i,
            "evidence_file": "evidence/%s.json" % i,
            "replay_cmd_template": "./check %s quick   # static: re-evaluates the rules; the replay file {path} names the violated obligation" % i,
            "engine": "E1 fact extractor + E2 rule analyser",
            "level_claimed": {"category": "other", "text": text, "design_ref": "DESIGN.md section 5, %s" % i},
            "level_note": note,
            "technique": "static analysis: " + tech,
        })
m = {
    "version": 1,
    "setup_cmd": "./setup.sh",
    "hooks": {"guard": "qbice_verif",
              "enable": "none needed: the static engines read private items directly from rustc's MIR; no source hook is compiled in",
              "baseline_off_cmd": "cd /repo && cargo test --workspace --no-fail-fast --offline",
              "source_commits": [], "add_only": True},
    "engines": [
        {"name": "E1 fact extractor", "path": "engine/driver", "serves_properties": ids,
         "kind_free_text": "rustc_private driver (nightly) dumping promoted MIR, rustc's maybe-initialised move paths, impl/ADT/signature tables as JSON"},
        {"name": "E2 rule analyser", "path": "engine/qbv", "serves_properties": ids,
         "kind_free_text": "Python 3 stdlib: CFG, dominators, reachability with removed nodes/edges, def-use slices, await map, may-suspend / run-to-completion fixpoints, per-property rule tables"},
    ],
    "checks": checks,
    "not_applicable": [{"property_id": i, "reason": NOT_YET} for i in ids if i not in CLAIMED],
    "notes": "Technique family: static analysis only (no execution of the engine). See DESIGN.md. Fixed defects are logged in known_findings.json.",
}
json.dump(m, open(os.path.join(HERE, "MANIFEST.json"), "w"), indent=1)
print("claimed:", [c["property_id"] for c in checks])

#!/usr/bin/env python3
"""usage: tools/gen_seed_prompts.py <round> <outdir>
Writes one prompt per property for the independent seeding sub-agents of round <round>: the property text (from
properties.jsonl) and one-line descriptions of the changes earlier rounds produced for that property (from
seeded/<id>[-k]/meta.json), nothing else from /verif."""
import json, os, sys
HERE = os.path.dirname(os.path.dirname(os.path.abspath(__file__)))
rnd, out = int(sys.argv[1]), sys.argv[2]
os.makedirs(out, exist_ok=True)
T = """You are helping to evaluate a verification effort for the Rust project Simmypeet/qbice (an async, Salsa-like incremental computation engine: dependency tracking, dirty propagation, firewall/projection queries, persistent KV backends, interning, a custom serializer).

You have your own scratch git worktree of the repository at {wt} (build output is in {wt}/target, already warm; everything is offline: always pass --offline to cargo, nothing can be downloaded). Work ONLY inside {wt}. Do not read or write anything under /verif or /repo, and do not look for any verification tooling: your change must be independent of it.

The property under study (it is supposed to hold for the code as it is now):

  Title: {title}
  Statement: {statement}
  Quantified over: {quant}
  Relevant files (starting points): {files}

NOTE on the build directory: third-party artifacts in target/ are pre-built and shared read-only (hard links); the workspace crates' own artifacts are private to your worktree and will be rebuilt on your first cargo command (about a minute). If a result ever looks inconsistent with your edit, `touch` the edited file and rebuild.

NOTE: earlier studies already produced these changes:
{earlier}
Yours must be in a DIFFERENT function from all of them, preferably in a file none of them touched, and a different kind of mistake. Look for parts of the relevant code that nobody has examined yet (including the less obvious files among the starting points, what they call, and the code the property silently depends on).

YOUR TASK: produce ONE realistic change to the repository's source (the kind of regression a maintainer could plausibly introduce: a refactoring slip, an "optimisation", a reordered statement, a dropped condition, a wrong constant...) that BREAKS this property, while
  (a) the workspace still compiles (cargo build --workspace --offline),
  (b) the EXISTING test suite still passes: run `cargo test --workspace --no-fail-fast --offline` in {wt} (takes a few minutes; one test `asymmetric_diamond_projection_pattern` is known to fail on the unchanged code and may be ignored),
  (c) the breakage needs something SPECIFIC to manifest - a particular interleaving, a cancellation/crash/fault at a particular point, a multi-step sequence of operations, an unusual input, or two cooperating sites that each look fine alone - NOT something ordinary use exposes at once.
Also write a DEMONSTRATION: a new test file (e.g. {wt}/crates/integration_test/tests/zz_demo{rnd}_{low}.rs, or a unit test / small program where more appropriate) that FAILS (or panics/hangs with a timeout) with your change applied and PASSES on the unchanged code. For schedule-dependent bugs it is fine for the demonstration to loop many times or use a multi-thread runtime, but it should fail reliably (most runs) with the change.

Deliver, inside {wt}:
  1. the source change left applied in the working tree (do NOT commit), restricted to files under crates/*/src;
  2. the demonstration file(s) (new files only);
  3. a file {wt}/SEEDED.md describing: what you changed and why it breaks the property, what is needed for it to manifest, the exact commands you ran (build, existing tests, demonstration with and without the change) and what you observed for each.
Verify all of (a), (b), the failing demonstration WITH the change and the passing demonstration WITHOUT it (use `git diff > /tmp/x-{low}.patch; git apply -R /tmp/x-{low}.patch`, then re-apply) before you finish. Keep the change small (ideally < 30 changed lines). If your first idea is caught by the existing tests, try another one.

IMPORTANT side task: while you explore, you may notice that the UNCHANGED code already violates the property (or panics / hangs / returns a wrong value) for some legal sequence of public-API calls. If so, do not build your change on it; instead describe it in a separate section "Side finding in the unchanged code" of SEEDED.md with the call sequence and, if you can, a small test file `{wt}/SIDE_FINDING_{low}.rs` that fails on the unchanged code. Such findings are valuable.

Finish by printing a short summary of the change (file, function), the demonstration result, and any side finding.
"""
for l in open(os.path.join(HERE, "properties.jsonl")):
    p = json.loads(l)
    pid = p["id"]
    earlier = []
    for suffix in [""] + ["-%d" % k for k in range(2, rnd)]:
        m = os.path.join(HERE, "seeded", pid + suffix, "meta.json")
        if os.path.exists(m):
            c = json.load(open(m))["change"]
            earlier.append("  - " + (c if len(c) < 330 else c[:327] + "..."))
    wt = "/tmp/w%d-%s" % (rnd, pid)
    open(os.path.join(out, pid + ".txt"), "w").write(T.format(
        wt=wt, title=p["title"], statement=p["statement"], quant=p["quantifier"]["text"], files=", ".join(p["anchors"]["files"]),
        earlier="\n".join(earlier), rnd=rnd, low=pid.lower()))
print("wrote", out)

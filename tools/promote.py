#!/usr/bin/env python3
"""usage: tools/promote.py <challenge-id-prefix> <new-mutant-id> <prop> <expected-key>  — moves a challenge mutant into mutants.py"""
import re, sys
pre, newid, prop, expect = sys.argv[1:5]
pc='/verif/selftest/challenge.py'; pm='/verif/selftest/mutants.py'
c=open(pc).read(); m=open(pm).read()
i=c.index('    dict(id="%s'%pre)
nxt=[k for k in (c.find('\n    dict(id="', i+10), c.find('\n    # ---', i+10), c.rfind('\n]')) if k!=-1]
j=min(nxt)+1
block=c[i:j]
c=c[:i]+c[j:]
block=re.sub(r'dict\(id="[^"]*"', 'dict(id="%s", prop="%s"'%(newid,prop), block,1).rstrip()
assert block.endswith('),'), block[-40:]
block=block[:-2]+',\n         expect="%s"),\n'%expect
anchor='    # ------------------------------------------------------------------ C09.f (D5)'
assert anchor in m
m=m.replace(anchor, block+anchor,1)
open(pc,'w').write(c); open(pm,'w').write(m)

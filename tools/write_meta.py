#!/usr/bin/env python3
"""usage: tools/write_meta.py <dir-id> <property> <json-file with change/needs/demo/cmd/with/without/before/after/base>"""
import json, sys
sid, prop, src = sys.argv[1:4]
m = json.load(open(src))
j = {"id": sid, "property": prop, "source": "independent sub-agent (given only the property text and a scratch worktree%s)" % m.get("source_note", ""),
     "change": m["change"], "needs_to_manifest": m["needs"], "demonstration": m["demo"],
     "confirmed": {"commands": m["cmd"], "demo_with_change": m["with"], "demo_without_change": m["without"],
                   "existing_suite_with_change": m.get("suite", "all pass except asymmetric_diamond_projection_pattern (baseline-flaky; deterministic since the D5 repair); only the demo fails otherwise")},
     "checks": {"before": m["before"], "after": m["after"]}}
json.dump(j, open("/verif/seeded/%s/meta.json" % sid, "w"), indent=1)
